"""C16 - rule-based and aggregation-aware routing follow their rule files.

A. TLC: Rules.tla - RelayRulesRouter.getDestinations as the code iterates (first match, continue
   chain, default rule last, filtered by the configured set) equals the closed form, and only
   configured destinations are ever returned, over every small rule table.
B/C. Generated relay-rules.conf files (1-6 pattern sections, continue flags in several spellings, the
   default section first / in the middle / last, `default = false` decoys, destination subsets)
   loaded by the real RelayRulesRouter, destinations added/removed through the router API, names from
   a grammar that hits and misses the patterns (matching is case-insensitive search); and generated
   aggregation-rules files loaded by the real AggregatedConsistentHashingRouter: its destinations
   must be the union of the hash destinations of the aggregate names the rules give (computed by the
   specification's pattern operators), or of the metric itself when no rule matches.
"""
import os
import random

from . import env, tlc, aggsys
from .core import Machinery

ALPHA = 'abcd.x'
PROP = {'route', 'unconfigured-destination', 'aggregate-name', 'aggregated-route'}
WHAT = {
  'route': 'the destinations differ from those of the first matching rule plus later matching rules while marked continue (default last), restricted to the configured destinations',
  'unconfigured-destination': 'a destination that is not configured was returned',
  'aggregate-name': 'an aggregation rule maps the metric to a different aggregate name than the rule language gives (or matches / does not match wrongly)',
  'aggregated-route': 'the metric is not routed to the hash destinations of exactly the aggregates it feeds (or of itself when none)',
}


def enc(s):
  return [ALPHA.index(c) + 1 for c in s.lower()]


def gen_pat(rng):
  return dict(k=rng.choice(['sub', 'sub', 'prefix', 'suffix', 'exact']),
              lit=enc(''.join(rng.choice('abcd.') for _ in range(rng.randint(1, 3)))))


def render_pat(p, rng):
  lit = ''.join(ALPHA[c - 1] for c in p['lit'])
  lit = ''.join(ch.upper() if rng.random() < 0.3 else ch for ch in lit).replace('.', '\\.')
  return dict(sub=lit, prefix='^' + lit, suffix=lit + '$', exact='^' + lit + '$')[p['k']]


def dest_str(i):
  return '127.0.0.%d:2004:a' % i


def dest_tuple(i):
  return ('127.0.0.%d' % i, 2004, 'a')


def relay_cases(ctx, rng, n, scratch):
  from carbon.routers import RelayRulesRouter
  recs = []
  nd = 3
  for k in range(n):
    nr = rng.randint(0, 5)
    rules = [dict(pat=gen_pat(rng), cont=1 if rng.random() < 0.4 else 0,
                  dests=sorted(rng.sample(range(1, nd + 1), rng.randint(1, nd)))) for _ in range(nr)]
    default = sorted(rng.sample(range(1, nd + 1), rng.randint(1, nd)))
    sections = []
    for i, r in enumerate(rules):
      body = 'pattern = %s\ndestinations = %s\n' % (render_pat(r['pat'], rng), rng.choice([', ', ',', ' , ', ' ,']).join(dest_str(d) for d in r['dests']))
      if r['cont']:
        body += 'continue = %s\n' % rng.choice(['true', '1', 'yes', 'on', 'True'])
      elif rng.random() < 0.3:
        body += 'continue = %s\n' % rng.choice(['false', '0', 'no', 'off'])
      sections.append(('rule%d' % i, body))
    dsec = ('default', 'default = true\ndestinations = %s\n' % ', '.join(dest_str(d) for d in default))
    pos = rng.choice([0, len(sections) // 2, len(sections)])
    sections.insert(pos, dsec)
    if rng.random() < 0.3:
      sections.insert(rng.randint(0, len(sections)), ('decoy', 'default = false\ndestinations = %s\n' % dest_str(rng.randint(1, nd))))
    path = os.path.join(scratch, 'relay-rules-%d.conf' % k)
    with open(path, 'w') as fh:
      if rng.random() < 0.4 and len(sections) > 1:
        # comments that mention section headers (a commented-out old copy, a note): the order of the real headers counts
        later = [n_ for n_, b_ in sections][::-1]
        fh.write('# reviewed: [%s] must stay below [%s]\n#[%s]\n#pattern = old\n\n' % (later[0], later[-1], later[0]))
      for name, body in sections:
        fh.write('[%s]\n%s\n' % (name, body))
    settings = dict(ctx_settings)
    settings['relay-rules'] = path
    router = RelayRulesRouter(settings)
    os.unlink(path)
    configured = set(rng.sample(range(1, nd + 1), rng.randint(0, nd)))
    for d in range(1, nd + 1):
      router.addDestination(dest_tuple(d))
    names = []
    for _ in range(5):
      base = ''.join(rng.choice('abcdx') for _ in range(rng.randint(1, 4)))
      cands = [base]
      for r in rules:
        lit = ''.join(ALPHA[c - 1] for c in r['pat']['lit'])
        cands += [lit, 'x' + lit, lit + 'x', 'x' + lit + 'x', lit.upper()]
      names.append(rng.choice(cands))
    if k % 2:
      # traffic while every destination is still there (whatever the router remembers from then must follow the removals)
      for name in names:
        list(router.getDestinations(name))
    for d in range(1, nd + 1):
      if d not in configured:
        router.removeDestination(dest_tuple(d))
    for name in names:
      obs = sorted(set(int(d[0].split('.')[-1]) for d in router.getDestinations(name)))
      recs.append(dict(kind='rules', rules=rules, default=default, configured=sorted(configured), name=enc(name), obs=obs,
                       text=dict(file=[(n_, b) for n_, b in sections], name=name)))
  return recs


def write_rules(rng, path):
  nrules = rng.randint(0, 3)
  rules, lines = [], []
  for i in range(nrules):
    pat, out = aggsys.gen_rule(rng)
    if rules and rng.random() < 0.4:
      # a second aggregate of the same inputs (a sum and a count of one input pattern): same pattern, another output name
      pat = rules[rng.randrange(len(rules))]['pat']
      nf = sum(1 for p_ in pat if p_['k'] in ('field', 'dfield'))
      out = [dict(k='lit', v=aggsys.enc('c' * (i + 1)))] + [dict(k='ref', n=f) for f in range(1, nf + 1) if rng.random() < 0.7]
    rules.append(dict(pat=pat, out=out))
    in_text = '.'.join(aggsys.render_part(p) for p in pat)
    out_text = '.'.join(aggsys.render_part(p) if p['k'] == 'lit' else '<f%d>' % p['n'] for p in out)
    lines.append('%s (10) = %s %s' % (out_text, rng.choice(['sum', 'avg', 'max']), in_text))
  with open(path, 'w') as fh:
    fh.write('\n'.join(lines) + '\n')
  return rules, lines


def agg_cases(ctx, rng, n, scratch, settings):
  from twisted.internet import task
  from carbon.routers import AggregatedConsistentHashingRouter
  import carbon.aggregator.rules as arules
  rm = arules.RuleManager
  recs = []
  import cachetools
  ticks = [0]

  def ticking():
    ticks[0] += 1       # every look at the cache's clock takes one unit: an entry may expire between two reads
    return ticks[0]

  class TickingTTLCache(cachetools.TTLCache):
    def __init__(self, size, ttl):
      cachetools.TTLCache.__init__(self, size, ttl, timer=ticking)
  orig_ttl = arules.TTLCache
  for k in range(n):
    # the rules' metric-name cache: off, a tiny LRU (evictions), or a TTL cache whose entries expire between reads
    mode = ('off', 'lru', 'ttl', 'off')[k % 4]
    settings['CACHE_METRIC_NAMES_MAX'] = {'off': 0, 'lru': 2, 'ttl': 50}[mode]
    settings['CACHE_METRIC_NAMES_TTL'] = {'off': 0, 'lru': 0, 'ttl': rng.choice([1, 2, 3, 5])}[mode]
    arules.TTLCache = TickingTTLCache if mode == 'ttl' else orig_ttl
    path = os.path.join(scratch, 'aggregation-rules-%d.conf' % k)
    rules, lines = write_rules(rng, path)
    os.utime(path, (1000.0, 1000.0))
    s2 = dict(settings)
    s2['aggregation-rules'] = path
    s2['REPLICATION_FACTOR'] = rng.randint(1, 2)
    s2['DIVERSE_REPLICAS'] = False
    s2['ROUTER_HASH_TYPE'] = rng.choice(['carbon_ch', 'fnv1a_ch'])
    if rm.read_task.running:
      rm.read_task.stop()
    clock = task.Clock()
    rm.read_task.clock = clock
    rm.rules_last_read = 0.0

    class S(dict):
      __getattr__ = dict.__getitem__
    router = AggregatedConsistentHashingRouter(S(s2))
    reloaded = False
    if k % 5 == 4:
      # the rules file is REMOVED while the relay runs: the re-read task clears the rules
      os.unlink(path)
      clock.advance(11)
      rules, lines = [], ['(file removed)']
      reloaded = True
      open(path, 'w').close()
    elif k % 5 == 2:
      # a FAULT: on one tick of the re-read task the modification time of the (present, unchanged) rules file
      # cannot be read (EACCES / EIO / ESTALE); the ticks after it succeed again.  The file did not change: its
      # rules stay in force - whatever the failing tick did must be healed by the following ones
      import errno

      def failing(p, _e=errno.EACCES):
        raise OSError(_e, os.strerror(_e), p)
      saved = (arules.getmtime, os.path.getmtime)
      arules.getmtime = failing
      os.path.getmtime = failing
      try:
        clock.advance(11)
      finally:
        arules.getmtime, os.path.getmtime = saved
      clock.advance(10)
      clock.advance(10)
      lines = lines + ['(one failing getmtime, then two good ticks)']
    elif k % 2:
      # the rules file changes while the relay runs: the 10 s re-read task picks it up
      rules, lines = write_rules(rng, path)
      # the replacement carries a preserved modification time (mv / rsync -t / tar): newer than the file it
      # replaces, long before "now"
      os.utime(path, (2000.0 + k, 2000.0 + k))
      clock.advance(11)
      reloaded = True
    if rm.read_task.running:
      rm.read_task.stop()
    os.unlink(path)
    nd = rng.randint(2, 5)
    dests = [('10.0.0.%d' % i, 2004, rng.choice(['a', 'b'])) for i in range(1, nd + 1)]
    from carbon.routers import ConsistentHashingRouter
    ref_router = ConsistentHashingRouter(S(s2))     # reference for the hash destinations of a key (C05/C06)
    for d in dests:
      router.addDestination(d)
      ref_router.addDestination(d)
    didx = {d: i + 1 for i, d in enumerate(dests)}
    asked = []
    for q in range(6):
      if q >= 3 and rng.random() < 0.7:
        name = rng.choice(asked)        # asked again: the answer now comes out of the name cache
      else:
        pat = rng.choice(rules)['pat'] if rules and rng.random() < 0.8 else aggsys.gen_rule(rng)[0]
        name = aggsys.gen_name(rng, pat)
      asked.append(name)
      obs = sorted(set(didx[d] for d in router.getDestinations(name)))
      # hash destinations (the consistent-hashing router itself is C05/C06) of every candidate key: the name and
      # whatever aggregate names the rule manager's current rules give
      cands = {name}
      for r in rm.rules:
        a = r.get_aggregate_metric(name)
        if a is not None:
          cands.add(a)
      hashd = []
      for cnd in sorted(cands):
        hashd.append([[aggsys.enc(seg) for seg in cnd.split('.')], sorted(set(didx[d] for d in ref_router.getDestinations(cnd)))])
      recs.append(dict(kind='agg', rules=rules, name=[aggsys.enc(seg) for seg in name.split('.')], obs=obs, hashd=hashd,
                       text=dict(rules=lines, name=name, reloaded=reloaded, name_cache=mode)))
  arules.TTLCache = orig_ttl
  settings['CACHE_METRIC_NAMES_MAX'] = 0
  settings['CACHE_METRIC_NAMES_TTL'] = 0
  return recs


ctx_settings = {}


def run(ctx):
  ctx.rule = ('relay-rules files of 0-5 pattern sections + default (placed first/middle/last, decoys, continue spellings), 3 '
              'destinations, every subset configured, 5 names per file; aggregation-rules files of 0-3 generated rules x 2-5 hash '
              'destinations x names that hit and miss; non-trivial = at least two rules match / a rule maps the name')
  ctx.value_oracles.append('relay-rule regexes restricted to a case-insensitive literal grammar decided by Rules!PatMatches')
  ctx.assumptions += ['the hash destinations of a key are taken from the real ConsistentHashingRouter (covered by C05/C06)']
  for mr, nd in ([(3, 2)] if ctx.quick else [(3, 3), (4, 2)]):      # |RuleSet|^MaxRules tables (TLC caps a set at 10^6 elements)
    cfg = tlc.cfg_text(spec='Spec', constants=dict(Mode='"model"', MaxRules=mr, NDest=nd), invariants=['ClosedForm', 'OnlyConfigured'])
    res = tlc.check_ok(tlc.run('Rules', cfg, ctx.scratch, timeout=3000), 'Rules model')
    ctx.add_tlc('Rules[%d rules, %d destinations]' % (mr, nd), res)
    if res.violated:
      raise Machinery('Rules.tla violates %s: %s' % (res.violated, res.cex))
  settings = env.bootstrap(ctx.scratch)
  settings['CACHE_METRIC_NAMES_MAX'] = 0
  settings['CACHE_METRIC_NAMES_TTL'] = 0
  import carbon.state, carbon.events, carbon.instrumentation
  carbon.state.events = carbon.events
  carbon.state.instrumentation = carbon.instrumentation
  global ctx_settings
  ctx_settings = settings
  recs = relay_cases(ctx, ctx.rng, ctx.pick(250, 3000), ctx.scratch)
  recs += agg_cases(ctx, ctx.rng, ctx.pick(200, 2500), ctx.scratch, settings)
  ctx.evaluations = len(recs)
  cfg = tlc.cfg_text(spec='Spec', constants=dict(Mode='"trace"', MaxRules=0, NDest=3), constraints=['Report'])
  verdicts = {}
  CH = 2500
  for k in range(0, len(recs), CH):
    chunk = recs[k:k + CH]
    r, done, bad = tlc.validate_batch('Rules', cfg, ctx.scratch, chunk, workers=8, timeout=3000)
    tlc.check_ok(r, 'C16 cases')
    ctx.states += r.distinct
    ctx.transitions += r.generated
    got = {}
    for v in tlc.extract_prints(r.out, 'DONE'):
      got[v[1]] = set()
    for v in tlc.extract_prints(r.out, 'F'):
      got.setdefault(v[1], set()).add(v[2])
    if len(got) != len(chunk):
      raise Machinery('C16: %d of %d cases judged\n%s' % (len(got), len(chunk), r.out[-2500:]))
    for i in range(1, len(chunk) + 1):
      verdicts[k + i - 1] = got[i]
  for i, rec in enumerate(recs):
    ctx.traces += 1
    if (rec['kind'] == 'rules' and len(rec['rules']) >= 2) or (rec['kind'] == 'agg' and len(rec['hashd']) >= 2):
      ctx.nontriv(i)
    for f in sorted(verdicts[i] & PROP):
      ctx.violation(WHAT[f], dict(case=rec['text'], observed=rec['obs'], configured=rec.get('configured')), signature=f)
  ctx.sample(dict(kind='relay-rules case', case=recs[0]['text'], observed=recs[0]['obs']))
  ctx.sample(dict(kind='aggregated routing case', case=recs[-1]['text'], observed=recs[-1]['obs'], hash_destinations=recs[-1]['hashd']))
  import copy
  bad = copy.deepcopy(next(r for r in recs if r['kind'] == 'rules' and r['obs']))
  bad['obs'] = bad['obs'][1:]
  r, done, b2 = tlc.validate_batch('Rules', cfg, ctx.scratch, [bad], workers=1)
  fl = set(v[2] for v in tlc.extract_prints(r.out, 'F'))
  ctx.negative_control('one destination removed from a recorded routing decision', 'route' in fl)
  # the periodic re-read of the file (Reload.tla): histories of rewrites, removals, restores with preserved times, failing ticks
  from . import reloadsys
  reloadsys.check(ctx, 'aggrules')


def replay(ctx, rp):
  raise NotImplementedError('rerun ./check C16 with the same VERIF_SEED')
