"""C06 - consistent hashing is stable, compatible and independent of membership history.

A. TLC: Ring.tla - Stable (action property: one membership change only inserts / deletes that
   node in every key's preference order) and HistoryFreeModuloCollisions over every hash table.
B/C. As C05; Ring_Trace.tla additionally compares the observed ring with the reference
   construction after every step (compatibility with the published algorithm) and the final
   routing with a freshly built ring (history independence; the listed finding F3 is the case
   where replica positions collide).
"""
from . import ringsys, ringcheck


def run(ctx):
  ctx.rule = ('as C05 plus histories of up to 6 add/remove operations; non-trivial = scenario with a removal / '
              'colliding replica positions / real ring')
  ctx.assumptions += ['mmh3_ch excluded (mmh3 not installed)', 'hashlib.md5 itself is trusted']
  ctx.value_oracles.append('replica and key ring positions: harness md5-prefix / folded FNV-1a implementations')
  ringcheck.model_runs(ctx, 'C06')
  rm = ringsys.RingModules(ctx.scratch)
  traces = ringcheck.scenarios(ctx, rm, 'C06')
  verdicts = ringsys.judge(ctx, traces, 'C06 scenarios')
  ringcheck.report(ctx, traces, verdicts, ringcheck.C06_FLAGS)
  ringcheck.negative_controls(ctx, traces, verdicts)
  ringcheck.manager_routes(ctx)
  t = next(x for x in traces if x['kind'] == 'ring' and len(x['refpos'][0]) >= 5)
  ctx.sample(dict(kind='real-hash scenario', nodes=t['nodes'], hash_type=t['hash_type'], ops=t['ops'],
                  first_positions=[r[:4] for r in t['refpos']], arcs=len(t['steps'][-1]['routes']) if t['steps'] else 0))


def replay(ctx, rp):
  raise NotImplementedError('scenarios are regenerated from the seed: run ./check C06 with VERIF_SEED')
