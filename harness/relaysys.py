"""The real relay client stack (CarbonClientManager / factories / protocols / router /
pipeline wiring of carbon.service / real receivers) driven one reactor callback at a time.
Every event is recorded with the full observable projection; Relay_Trace.tla judges."""
import pickle
import struct

from twisted.internet import task, error
from twisted.python.failure import Failure
from twisted.internet.testing import StringTransport

from . import env, tlc
from .core import Machinery


class FakeConnector(object):
  def __init__(self, host, port, factory, run):
    self.host, self.port, self.factory, self.run = host, port, factory, run
    self.state = 'disconnected'
    self.transport = None
    self.proto = None

  def connect(self):
    self.state = 'connecting'
    self.factory.startedConnecting(self)

  def stopConnecting(self):
    if self.state != 'connecting':
      raise error.NotConnectingError("we're not trying to connect")
    self.state = 'disconnected'
    self.factory.clientConnectionFailed(self, Failure(error.UserError()))

  def disconnect(self):
    if self.state == 'connecting':
      self.stopConnecting()
    elif self.state == 'connected' and self.transport is not None:
      self.transport.loseConnection()

  def getDestination(self):
    from twisted.internet.address import IPv4Address
    return IPv4Address('TCP', self.host, self.port)


class FakeReactor(object):
  """carbon.client.reactor: connectTCP gives a FakeConnector, callLater goes to a per-factory clock."""
  def __init__(self, run):
    self.run = run
    self.running = True

  def connectTCP(self, host, port, factory, *a, **k):
    c = FakeConnector(host, port, factory, self.run)
    self.run.connectors[factory.destination] = c
    c.connect()
    return c

  def callLater(self, delay, f, *a, **k):
    fac = getattr(f, '__self__', None)
    clock = self.run.send_clocks.setdefault(getattr(fac, 'destination', None), task.Clock())
    # (a zero delay still means "in a later reactor iteration": task.Clock would run it inside the current advance())
    return clock.callLater(max(delay, 1e-6), f, *a, **k)

  def callWhenRunning(self, *a, **k):
    pass

  def addSystemEventTrigger(self, *a, **k):
    pass


class RelayModules(object):
  def __init__(self, scratch):
    self.settings = env.bootstrap(scratch)
    import carbon.events
    import carbon.state
    import carbon.instrumentation
    self.events = carbon.events
    self.state = carbon.state
    self.state.events = carbon.events
    self.state.instrumentation = carbon.instrumentation
    self.instrumentation = carbon.instrumentation
    self.base_handlers = {n: list(getattr(carbon.events, n).handlers) for n in
                          ('metricReceived', 'metricGenerated', 'cacheOverflow', 'cacheFull',
                           'cacheSpaceAvailable', 'pauseReceivingMetrics', 'resumeReceivingMetrics')}
    self.configured = None

  def configure(self, cfg):
    s = self.settings
    key = tuple(sorted((k, str(v)) for k, v in cfg.items()))
    nd = cfg['nd']
    s['DESTINATIONS'] = ['127.0.0.%d:2004:a' % (i + 1) for i in range(nd)]
    s['MAX_QUEUE_SIZE'] = cfg['maxq']
    s['QUEUE_LOW_WATERMARK_PCT'] = cfg.get('low_pct', 0.8)
    s['MAX_QUEUE_SIZE_HARD_PCT'] = cfg.get('hard_pct', 1.25)
    s['USE_FLOW_CONTROL'] = cfg.get('flow', True)
    s['MAX_DATAPOINTS_PER_MESSAGE'] = cfg['mpm']
    s['DYNAMIC_ROUTER'] = cfg.get('dynamic', False)
    s['DYNAMIC_ROUTER_MAX_RETRIES'] = cfg.get('max_retries', 1)
    s['REPLICATION_FACTOR'] = cfg.get('rf', 1)
    s['DIVERSE_REPLICAS'] = False
    s['RELAY_METHOD'] = 'consistent-hashing'
    s['DESTINATION_PROTOCOL'] = cfg.get('protocol', 'pickle')
    s['DESTINATION_POOL_REPLICAS'] = False
    # USE_RATIO_RESET: a destination whose sent/received ratio of the previous interval is below MIN_RESET_RATIO has its
    # connection reset (the statistics themselves are set by the Slow / Fast events of a run)
    s['USE_RATIO_RESET'] = bool(cfg.get('ratio', False))
    s['MIN_RESET_STAT_FLOW'] = 1
    s['MIN_RESET_RATIO'] = 0.9
    s['MIN_RESET_INTERVAL'] = 0
    s['TIME_TO_DEFER_SENDING'] = cfg.get('defer', 0.0001)
    s['TAG_RELAY_NORMALIZED'] = False
    s['METRIC_CLIENT_IDLE_TIMEOUT'] = None
    s['TCP_KEEPALIVE'] = False
    s['MAX_RECEIVER_CONNECTIONS'] = float('inf')
    s['USE_WHITELIST'] = False
    s['MIN_TIMESTAMP_RESOLUTION'] = 0
    if self.configured != key:
      self.client = env.fresh('carbon.client')
      import carbon.service
      import carbon.protocols
      import carbon.pipeline
      self.service = carbon.service
      self.protocols = carbon.protocols
      self.pipeline = carbon.pipeline
      self.configured = key
    import math
    # the limits the documentation defines (NOT read back from the code under test)
    hard = cfg['maxq'] * cfg.get('hard_pct', 1.25) if cfg.get('flow', True) else cfg['maxq']
    low = cfg['maxq'] * cfg.get('low_pct', 0.8)
    self.consts = dict(ND=nd, NR=cfg.get('nr', 1), MaxQ=cfg['maxq'], HardC=int(math.ceil(hard)),
                       LowC=int(math.ceil(low)), MaxPerMsg=cfg['mpm'],
                       Flow='TRUE' if cfg.get('flow', True) else 'FALSE',
                       Dynamic='TRUE' if cfg.get('dynamic', False) else 'FALSE',
                       MaxRetries=cfg.get('max_retries', 1), RF=cfg.get('rf', 1),
                       Ratio='TRUE' if cfg.get('ratio', False) else 'FALSE')


class DestTransport(StringTransport):
  """the connection to a destination: remembers whether anything was written after loseConnection() was called
  (an orderly stop must close the connection only AFTER the queue has been transmitted)"""
  wrote_after_close = False

  pause_next = False        # the next write overflows the write buffer: the transport pauses its producer INSIDE write()
  paused_in_write = False

  def write(self, data):
    if self.disconnecting and data:
      self.wrote_after_close = True
    StringTransport.write(self, data)
    if self.pause_next and data and self.producer is not None and self.streaming:
      # twisted.internet.abstract.FileDescriptor.write(): buffer above bufferSize -> producer.pauseProducing()
      self.pause_next = False
      self.paused_in_write = True
      self.producer.pauseProducing()

  def writeSequence(self, seq):
    for d in seq:
      self.write(d)


class RelayRun(object):
  def __init__(self, rm, cfg):
    self.rm = rm
    self.cfg = cfg
    self.ev = []
    self.connectors = {}
    self.send_clocks = {}
    self.nitems = 0
    self.routes = []
    self.transports = {}      # dest -> list of transports in connection order
    self.recv = {}
    self.closed_nonempty = False

  def build(self):
    rm = self.rm
    rm.configure(self.cfg)
    for n, hs in rm.base_handlers.items():
      getattr(rm.events, n).handlers[:] = list(hs)
    rm.state.pipeline_processors = []
    rm.state.pipeline_processors_generated = []
    rm.state.cacheTooFull = False
    rm.state.metricReceiversPaused = False
    rm.state.connectedMetricReceiverProtocols.clear()
    rm.state.client_manager = None
    rm.instrumentation.stats.clear()
    rm.instrumentation.prior_stats.clear()
    self.reactor = FakeReactor(self)
    rm.client.reactor = self.reactor
    from twisted.application.service import MultiService
    self.root = MultiService()
    rm.service.setupPipeline(['relay'], self.root, rm.settings)
    self.mgr = rm.state.client_manager
    self.dests = [d for d in self.mgr.client_factories if d is not None]
    self.dests.sort()
    self.didx = {d: i + 1 for i, d in enumerate(self.dests)}
    for d in self.dests:
      f = self.mgr.client_factories[d]
      f.clock = task.Clock()          # ReconnectingClientFactory retry timer
      f.jitter = 0
    # observe routing decisions
    orig = self.mgr.getFactories

    def getFactories(metric):
      fs = orig(metric)
      self.routes.append(sorted(self.didx[f.destination] for f in fs if getattr(f, 'destination', None) is not None))
      return fs
    self.mgr.getFactories = getFactories
    import signal
    old = signal.getsignal(signal.SIGHUP)
    try:
      self.root.startService()
    finally:
      signal.signal(signal.SIGHUP, old)
    self.record('Init', 0)

  def teardown(self):
    rm = self.rm
    for n, hs in rm.base_handlers.items():
      getattr(rm.events, n).handlers[:] = list(hs)
    rm.state.connectedMetricReceiverProtocols.clear()
    rm.state.client_manager = None

  # ---- projection -----------------------------------------------------------------
  def item_id(self, metric, datapoint):
    # the id travels in the metric name; the value is free to be awkward (inf, huge, negative zero)
    if isinstance(metric, bytes):
      metric = metric.decode('ascii')
    return int(metric.rsplit('m', 1)[1])

  def decode_wire(self, d):
    out = []
    proto = self.cfg.get('protocol', 'pickle')
    for tr in self.transports.get(d, []):
      raw = tr.value()
      if proto == 'pickle':
        pos = 0
        while pos + 4 <= len(raw):
          (n,) = struct.unpack('!L', raw[pos:pos + 4])
          batch = pickle.loads(raw[pos + 4:pos + 4 + n])
          out.append([self.item_id(m, dp) for (m, dp) in batch])
          pos += 4 + n
      else:
        for line in raw.split(b'\r\n'):
          if line:
            out.append([self.item_id(line.split()[0], None)])
    return out

  def project(self):
    st = self.rm.state
    stats = self.rm.instrumentation.stats
    p = dict(q=[], wire=[], cs=[], pconn=[], tp=[], st=[], rt=[], retries=[], has=[], drops=[],
             fullCalled=[], trying=[], stopReq=[])
    for d in self.dests:
      f = self.mgr.client_factories.get(d) or self.factories[d]
      c = self.connectors.get(d)
      proto = f.connectedProtocol
      p['q'].append([self.item_id(m, dp) for (m, dp) in f.queue])
      p['wire'].append(self.decode_wire(d))
      cs = 'connecting' if c.state == 'connecting' else 'connected' if c.state == 'connected' else \
           ('waiting' if (f._callID is not None and f._callID.active()) else 'stopped')
      p['cs'].append(cs)
      p['pconn'].append(bool(proto is not None and proto.connected))
      p['tp'].append(bool(proto is not None and getattr(proto, 'paused', False)))
      p['st'].append(bool(f.deferSendPending is not None and f.deferSendPending.active()))
      p['rt'].append(bool(f._callID is not None and f._callID.active()))
      p['retries'].append(int(f.retries))
      p['has'].append(bool(self.mgr.router.hasDestination(d)))
      p['drops'].append(int(stats.get(f.fullQueueDrops, 0)))
      p['fullCalled'].append(bool(f.queueFull.called))
      p['trying'].append(bool(f.continueTrying))
      p['stopReq'].append(bool(f.queueEmpty.callbacks))
    fake = self.fake
    p['fake'] = [self.item_id(m, dp) for (m, dp) in fake.queue]
    p['tooFull'] = bool(st.cacheTooFull)
    p['rpaused'] = bool(st.metricReceiversPaused)
    nr = self.cfg.get('nr', 1)
    p['rconn'] = [c in self.recv for c in range(1, nr + 1)]
    p['prod'] = [(self.recv[c][1].producerState == 'producing') if c in self.recv else True for c in range(1, nr + 1)]
    p['newclose'] = list(getattr(self, 'newclose', [False] * len(self.dests)))
    p['wac'] = list(getattr(self, 'wac', [False] * len(self.dests)))
    return p

  def record(self, name, arg, **extra):
    if name == 'Init':
      self.factories = dict((d, self.mgr.client_factories[d]) for d in self.dests)
      self.fake = self.mgr.client_factories[None]
    # a connection that begins to close while its queue still holds datapoints / bytes written to a connection that is
    # already closing: reported per callback; Relay_Trace decides whether a connection-quality reset explains them
    self.newclose, self.wac = [], []
    for d in self.dests:
      f = self.factories[d]
      trs = self.transports.get(d, [])
      tr = trs[-1] if trs else None
      self.newclose.append(bool(tr is not None and tr.disconnecting and not getattr(tr, '_seen_closing', False) and len(f.queue) > 0))
      self.wac.append(bool(tr is not None and tr.wrote_after_close))
      if tr is not None:
        tr.wrote_after_close = False
        if tr.disconnecting:
          tr._seen_closing = True
    pd = 0
    for d in self.dests:
      trs = self.transports.get(d, [])
      if trs and trs[-1].paused_in_write:
        trs[-1].paused_in_write = False
        pd = self.didx[d]
    e = dict(e=name, arg=arg, routes=self.routes, p=self.project(), pd=pd)
    e.update(extra)
    self.routes = []
    self.ev.append(e)

  # ---- events -------------------------------------------------------------------
  def enabled(self):
    out = []
    p = self.ev[-1]['p']
    for i, d in enumerate(self.dests):
      k = i + 1
      if p['st'][i]:
        out.append(('SendTimer', k))
      if p['cs'][i] == 'connecting':
        out.append(('ConnMade', k))
        out.append(('ConnFailed', k))
      if p['cs'][i] == 'connected':
        out.append(('ConnLost', k))
        if p['pconn'][i]:
          out.append(('TResume', k) if p['tp'][i] else ('TPause', k))
          if self.cfg.get('wbuf') and not p['tp'][i] and not self.transports[d][-1].pause_next:
            out.append(('WFull', k))
      if p['rt'][i]:
        out.append(('RetryTimer', k))
    if not self.stopped and all(p['has']):
      out.append(('Stop', 0))
    for c in range(1, self.cfg.get('nr', 1) + 1):
      out.append(('RDisconnect', c) if c in self.recv else ('RConnect', c))
    if not self.stopped:
      out.append(('Arrive', 0))
      out.append(('ArriveHi', 0))
      if self.cfg.get('ratio'):
        out.append(('Fast', 0) if self.slow else ('Slow', 0))
    return out

  slow = False

  stopped = False

  def fire(self, name, arg):
    rm = self.rm
    d = self.dests[arg - 1] if name not in ('Arrive', 'ArriveHi', 'Stop', 'RConnect', 'RDisconnect', 'Slow', 'Fast') else None
    f = self.factories[d] if d is not None else None
    c = self.connectors.get(d) if d is not None else None
    extra = {}
    if name in ('Arrive', 'ArriveHi'):
      self.nitems += 1
      i = self.nitems
      metric = 'relay.test.m%d' % i
      value = [float(i), float('inf'), float(i), -0.0, float('-inf'), 1e300, float(i)][i % 7]
      dp = (1000.0 + i, value)
      if name == 'Arrive':
        producing = [c2 for c2 in self.recv if self.recv[c2][1].producerState == 'producing']
        if producing:
          if i % 3 == 0:
            # a line with a NaN / infinite timestamp right before it: skipped by the listener, never queued
            junk = ('relay.junk.m999 1 %s\n' % ['nan', 'inf', '-inf'][i % 9 // 3]).encode('ascii')
            self.recv[producing[0]][0].dataReceived(junk)
          line = ('%s %r %d\n' % (metric, value, 1000 + i)).encode('ascii')
          self.recv[producing[0]][0].dataReceived(line)
        else:
          rm.events.metricReceived(metric, dp)
      else:
        self.mgr.sendHighPriorityDatapoint(metric, dp)
      extra = dict(i=i, hi=(name == 'ArriveHi'))
    elif name == 'SendTimer':
      self.send_clocks[d].advance(1)
    elif name == 'ConnMade':
      from twisted.internet.address import IPv4Address
      proto = f.buildProtocol(IPv4Address('TCP', d[0], d[1]))
      tr = DestTransport()
      self.transports.setdefault(d, []).append(tr)
      c.state = 'connected'
      c.transport = tr
      c.proto = proto
      proto.makeConnection(tr)
    elif name == 'ConnLost':
      from twisted.internet.error import ConnectionDone
      reason = Failure(ConnectionDone())
      c.state = 'disconnected'
      c.proto.connectionLost(reason)
      f.clientConnectionLost(c, reason)
    elif name == 'ConnFailed':
      c.state = 'disconnected'
      f.clientConnectionFailed(c, Failure(error.ConnectionRefusedError()))
    elif name == 'RetryTimer':
      f.clock.advance(1000)
    elif name == 'WFull':
      self.transports[d][-1].pause_next = True       # nothing happens yet: the next write to this connection will pause it
    elif name == 'TPause':
      c.proto.pauseProducing()
    elif name == 'TResume':
      c.proto.resumeProducing()
    elif name == 'Stop':
      self.stopped = True
      self.root.stopService()
    elif name == 'RConnect':
      r = rm.protocols.MetricLineReceiver()
      tr = StringTransport()
      r.makeConnection(tr)
      self.recv[arg] = (r, tr)
    elif name == 'RDisconnect':
      from twisted.internet.error import ConnectionDone
      r, tr = self.recv.pop(arg)
      r.connectionLost(Failure(ConnectionDone()))
    elif name in ('Slow', 'Fast'):
      # the self-metrics report of the interval just ended: much received, (nearly) nothing sent / all of it sent
      ps = rm.instrumentation.prior_stats
      ps.clear()
      self.slow = name == 'Slow'
      ps['metricsReceived'] = 1000
      for d2 in self.dests:
        ps['destinations.%s.sent' % self.factories[d2].destinationName] = 10 if self.slow else 1000
    else:
      raise Machinery('unknown event %s' % name)
    self.record(name, arg, **extra)

  def settle(self, max_events=200):
    """Drive to quiescence: fire pending timers, complete connections, resume transports."""
    n = 0
    while n < max_events:
      p = self.ev[-1]['p']
      todo = None
      for i in range(len(self.dests)):
        if p['st'][i]:
          todo = ('SendTimer', i + 1)
        elif p['rt'][i]:
          todo = ('RetryTimer', i + 1)
        elif p['cs'][i] == 'connecting':
          todo = ('ConnMade', i + 1)
        elif p['cs'][i] == 'connected' and p['pconn'][i] and p['tp'][i]:
          todo = ('TResume', i + 1)
        elif p['cs'][i] == 'connected' and not p['pconn'][i] and not self.stopped:
          todo = ('ConnLost', i + 1)        # a connection closed by a quality reset goes away
        if todo:
          break
      if not todo:
        return
      self.fire(*todo)
      n += 1

  def trace(self):
    return dict(ev=self.ev)


def random_run(rm, cfg, rng, nevents, settle=True, weights=None):
  run = RelayRun(rm, cfg)
  run.build()
  try:
    w = dict(Arrive=6, ArriveHi=1, SendTimer=5, ConnMade=3, ConnLost=1, ConnFailed=1, RetryTimer=3,
             TPause=1, TResume=2, Stop=0.15, RConnect=1, RDisconnect=0.4, Slow=0.7, Fast=0.5, WFull=1.5)
    w.update(weights or {})
    for _ in range(nevents):
      en = run.enabled()
      tot = sum(w[n] for n, a in en)
      x = rng.random() * tot
      for n, a in en:
        x -= w[n]
        if x <= 0:
          break
      run.fire(n, a)
    if settle:
      run.settle()
  finally:
    run.teardown()
  return run.trace()


def full_then_removed_run(rm, cfg, victim=1, drain_first=True):
  """Adaptive: destination `victim` sits behind a paused transport until its queue reports itself full (the others keep
  sending); optionally one batch is sent; its connection is lost and every retry fails until the dynamic router removes
  it; everything else settles.  Returns (trace, script) - the script replays with scripted_run."""
  run = RelayRun(rm, cfg)
  run.build()
  script = []

  def fire(n, a):
    script.append((n, a))
    run.fire(n, a)

  def P():
    return run.ev[-1]['p']
  try:
    nd = cfg['nd']
    for c in range(1, cfg.get('nr', 1) + 1):
      fire('RConnect', c)
    for d in range(1, nd + 1):
      fire('ConnMade', d)
    fire('TPause', victim)
    n = 0
    while not P()['fullCalled'][victim - 1] and n < 40 * cfg['maxq']:
      fire('Arrive', 0)
      n += 1
      for d in range(1, nd + 1):
        while d != victim and P()['st'][d - 1]:
          fire('SendTimer', d)
    if drain_first:
      fire('TResume', victim)
    fire('ConnLost', victim)
    k = 0
    while P()['has'][victim - 1] and k < 20:
      fire('RetryTimer', victim)
      fire('ConnFailed', victim)
      k += 1
    # everything but the victim's retries settles
    for _ in range(400):
      p = P()
      todo = [('SendTimer', d) for d in range(1, nd + 1) if p['st'][d - 1]]
      if not todo:
        break
      fire(*todo[0])
  finally:
    run.teardown()
  return run.trace(), script


def scripted_run(rm, cfg, events, settle=False, max_settle=200):
  """events: list of (name, arg); events not enabled on the code are reported."""
  run = RelayRun(rm, cfg)
  run.build()
  skipped = []
  try:
    for n, a in events:
      if (n, a) not in run.enabled():
        skipped.append((n, a))
        break
      run.fire(n, a)
    if settle:
      run.settle(max_settle)
  finally:
    run.teardown()
  return run.trace(), skipped
