"""C18 - tagged series names normalise to one canonical form.

A. TLC: Tags.tla (a transcription of parse_carbon / validateTagAndValue / sanitize / format over
   character codes) - Idempotent over EVERY string up to MaxLen over the reserved characters, and
   Canonical over every order of the tag list of every valid series of a small universe.
B/C. The real TaggedSeries.parse, CacheFeedingProcessor.process (observed: the key under which the
   real cache stored the point) and RelayProcessor.process with TAG_RELAY_NORMALIZED (observed: the
   name handed to the client manager) on (i) arbitrary strings over ; ! ^ = ~ { } " \\ , and letters
   - judged against Tags!ParseCarbon / Stored - and (ii) valid series rendered in every order of
   up to 4 tags (all 24 permutations) in carbon and OpenMetrics syntax, with and without a 'name'
   tag - all must give Tags!Canon, and feeding the result to the cache again must store it unchanged.
"""
import itertools
import random

from . import env, tlc
from .core import Machinery

ALPHA = ';!^=~{}"\\,abn'
PROP = {'parse', 'stored-name', 'relayed-name', 'not-canonical', 'not-idempotent', 'accepted-invalid', 'rejected-not-raw'}
WHAT = {
  'parse': 'TaggedSeries.parse disagrees with the transcribed carbon-syntax parser (accepts / rejects / result)',
  'stored-name': 'the cache stored the datapoint under a name that is neither the canonical form nor (for a rejected name) the name as received',
  'relayed-name': 'the relay forwarded a name that is neither the canonical form nor (for a rejected name) the name as received',
  'not-canonical': 'a valid series did not normalise to the canonical form for some tag order / syntax',
  'not-idempotent': 'normalising an already normalised name changed it',
  'accepted-invalid': 'a name violating the tag rules was accepted by the parser',
  'rejected-not-raw': 'a rejected name was not stored exactly as received',
}


def codes(s):
  return [ord(c) for c in s]


class Recorder(object):
  def __init__(self):
    self.names = []

  def sendDatapoint(self, metric, datapoint):
    self.names.append(metric)


class TagEnv(object):
  def __init__(self, ctx):
    self.settings = env.bootstrap(ctx.scratch)
    s = self.settings
    s['MAX_CACHE_SIZE'] = float('inf')
    s['CACHE_SIZE_HARD_MAX'] = float('inf')
    s['CACHE_SIZE_LOW_WATERMARK'] = float('inf')
    s['CACHE_WRITE_STRATEGY'] = 'sorted'
    s['TAG_RELAY_NORMALIZED'] = True
    import carbon.cache
    import carbon.state
    import carbon.util
    import carbon.events
    import carbon.instrumentation
    carbon.state.events = carbon.events
    carbon.state.instrumentation = carbon.instrumentation
    self.cache, self.state, self.util = carbon.cache, carbon.state, carbon.util
    self.client = env.fresh('carbon.client')

  def parse(self, x):
    try:
      return 1, self.util.TaggedSeries.parse(x).path
    except Exception:
      return 0, ''

  def stored(self, x):
    """the name the daemon's (long-lived) CacheFeedingProcessor stores two consecutive datapoints of series x under"""
    if getattr(self, 'proc', None) is None:
      self.cache._Cache = None
      self.proc = self.cache.CacheFeedingProcessor()
      self.nstored = 0
    mc = self.cache.MetricCache()
    self.nstored += 1
    t1, t2 = float(self.nstored), self.nstored + 0.5
    try:
      list(self.proc.process(x, (t1, 2.0)))
      list(self.proc.process(x, (t2, 2.0)))
    except Exception as e:
      for k in list(mc.keys()):
        mc.pop(k)
      return '<process() raised %s: the datapoint is lost>' % type(e).__name__
    keys = [k for k in list(mc.keys()) if t1 in dict.get(mc, k, {}) or t2 in dict.get(mc, k, {})]
    both = [k for k in keys if t1 in dict.get(mc, k, {}) and t2 in dict.get(mc, k, {})]
    for k in list(mc.keys()):
      mc.pop(k)
    return both[0] if len(keys) == 1 and both else '<%d keys>' % len(keys)

  def relayed(self, x):
    """the name the relay's (long-lived) RelayProcessor forwards two consecutive datapoints of series x under"""
    if getattr(self, 'rproc', None) is None:
      self.rrec = Recorder()
      self.rproc = self.client.RelayProcessor()
    self.state.client_manager = self.rrec
    del self.rrec.names[:]
    try:
      list(self.rproc.process(x, (1.0, 2.0)))
      list(self.rproc.process(x, (2.0, 2.0)))
    except Exception as e:
      self.state.client_manager = None
      return '<process() raised %s: the datapoint is lost>' % type(e).__name__
    self.state.client_manager = None
    names = list(self.rrec.names)
    return names[0] if len(names) == 2 and names[0] == names[1] else '<%d names>' % len(set(names))


def om_escape(v):
  return v.replace('\\', '\\\\').replace('"', '\\"')


def render(name, tags, syntax):
  if syntax == 'carbon':
    return name + ''.join(';%s=%s' % (t, v) for t, v in tags)
  return name + '{' + ','.join('%s="%s"' % (t, om_escape(v)) for t, v in tags) + '}'


def run(ctx):
  ctx.rule = ('(i) random strings of length 1-14 over ; ! ^ = ~ { } " \\ , a b n in carbon syntax; (ii) valid series with 0-4 tags '
              '(keys/values over letters and the characters each position allows) in all permutations x carbon/OpenMetrics, with '
              'and without a name tag, plus OpenMetrics renderings that violate a tag rule; non-trivial = case with at least two tags '
              'or a reserved character')
  ctx.assumptions += ['tag sets have distinct keys (duplicate keys are last-wins in the code and outside the property)',
                      'a text that is both a canonical carbon name and an OpenMetrics rendering breaking a tag rule is rejected and stored as received: idempotence is judged on the stored name']
  base = dict(MaxLen=ctx.pick(5, 6), Alphabet='{59,61,126,33,97,98}', MaxTags=3)
  cx = dict(Names='{<<97>>,<<126,97>>,<<98,97>>}', Keys='{<<97>>,<<98>>,<<97,98>>}', Vals='{<<97>>,<<98,126>>,<<61>>,<<33,97>>}')
  cx['Vals'] = cx['Vals'][:-1] + ',<<123,97,61,34,97,34,125>>,<<34,125>>}'     # {a="a"}  and  "}
  for mode, inv, alpha in (('strings', 'Idempotent', None), ('strings', 'Idempotent', '{59,61,97,123,125,34,44}'), ('series', 'Canonical', None)):
    c = dict(base)
    if alpha:
      c['Alphabet'] = alpha
    c['Mode'] = '"%s"' % mode
    mc, files, sub = tlc.mc_wrap('Tags', cx)
    c.update(sub)
    cfg = tlc.cfg_text(spec='Spec', constants=c, invariants=[inv])
    res = tlc.check_ok(tlc.run(mc, cfg, ctx.scratch, files=files, timeout=3000), 'Tags model ' + mode)
    ctx.add_tlc('Tags[%s]' % mode, res)
    if res.violated:
      raise Machinery('Tags.tla violates %s: %s' % (res.violated, res.cex))
  te = TagEnv(ctx)
  rng = ctx.rng
  recs = []
  # long uptime with series churn: a hundred thousand distinct series have been seen before the ones judged below
  for k in range(100100):
    try:
      te.util.TaggedSeries.parse('warm.s%d;b=2;a=1' % k)
    except Exception:
      pass
  # (i) arbitrary carbon-syntax strings
  for _ in range(ctx.pick(2500, 40000)):
    n = rng.randint(1, 14)
    x = ''.join(rng.choice(ALPHA if rng.random() < 0.5 else 'ab;=~') for _ in range(n))
    if rng.random() < 0.1:
      x = x + ';name=' + rng.choice(['a', '~b', ''])
    if rng.random() < 0.15:
      x = x + rng.choice(['{a="b"}', '"}', '={b="a",a="b"}', '{a="\\""}', '{a="b":,b="a"}', '{a="b",}', '{a="~"}', '{a=""}'])
    if rng.random() < 0.004:
      # a very long name that breaks a tag rule (stored exactly as received, however long) or keeps them
      x = 'a' * rng.randint(380, 430) + rng.choice([';=b', ';a=', ';a=b;a', ';b=a'])
    ok, parsed = te.parse(x)
    recs.append(dict(kind='carbon', str=codes(x), ok=ok, parsed=codes(parsed), stored=codes(te.stored(x)),
                     relayed=codes(te.relayed(x)), text=x))
  # (ii) series in every order and both syntaxes
  # keys and names over characters both syntaxes can carry (OpenMetrics has no escaping outside values)
  keyc, valc, namec = 'abAB.~\u00e9', 'abA=!^,{}"\\~\u00e9\u4e2d', 'ab~.\u00e9'      # incl. upper case and non-ASCII letters
  for _ in range(ctx.pick(120, 1500)):
    nt = rng.randint(0, 4)
    name = ''.join(rng.choice(namec) for _ in range(rng.randint(1, 3)))
    keys = set()
    while len(keys) < nt:
      k = ''.join(rng.choice(keyc) for _ in range(rng.randint(1, 2)))
      if rng.random() < 0.15:
        k = 'name'
      keys.add(k)
    tags = [(k, ''.join(rng.choice(valc) for _ in range(rng.randint(1, 3)))) for k in sorted(keys)]
    if tags and rng.random() < 0.2:
      # a value that itself looks like OpenMetrics syntax (the canonical form then ends in '"}' after a '{')
      j = rng.randrange(len(tags))
      tags[j] = (tags[j][0], rng.choice(['{b="a"}', 'a{b="a"}', '{"}', '"}', '{b="a",c="b"}']))
    invalid_om = rng.random() < 0.15 and nt > 0
    if invalid_om:
      j = rng.randrange(nt)
      how = rng.choice(['tilde', 'emptyval', 'badtag', 'semival', 'semival'])
      if how == 'tilde':
        tags[j] = (tags[j][0], '~' + tags[j][1])
      elif how == 'emptyval':
        tags[j] = (tags[j][0], '')
      elif how == 'semival':
        tags[j] = (tags[j][0], tags[j][1] + ';' + rng.choice(['x', 'x=1', 'a=b;c=d']))     # only OpenMetrics syntax can carry a ';' in a value
      else:
        tags[j] = (tags[j][0] + rng.choice(';!^'), tags[j][1])
    perms = list(itertools.permutations(tags))
    if len(perms) > ctx.pick(6, 24):
      perms = [perms[0]] + rng.sample(perms[1:], ctx.pick(5, 23))
    for perm in perms:
      for syntax in ('carbon', 'om'):
        if syntax == 'carbon' and (invalid_om or any(c in k for k, v in perm for c in '{}",\\') and False):
          continue
        if syntax == 'om' and (nt == 0 or '{' in name):
          continue
        # carbon syntax cannot carry every character the OpenMetrics syntax can (a value with ';')
        x = render(name, list(perm), syntax)
        if syntax == 'carbon' and (x.endswith('"}') and '{' in x):
          continue
        ok, parsed = te.parse(x)
        again = te.stored(parsed) if ok else ''
        recs.append(dict(kind='series', str=codes(x), name=codes(name), tags=[[codes(k), codes(v)] for k, v in perm], ok=ok,
                         parsed=codes(parsed), stored=codes(te.stored(x)), again=codes(again),
                         rejectexpected=1 if (invalid_om and syntax == 'om') else 0, text=x))
  ctx.evaluations = len(recs)
  c = dict(base)
  c['Mode'] = '"trace"'
  mc, files, sub = tlc.mc_wrap('Tags', cx)
  c.update(sub)
  cfg = tlc.cfg_text(spec='Spec', constants=c, constraints=['Report'])
  verdicts = {}
  CH = 3000
  for k in range(0, len(recs), CH):
    chunk = recs[k:k + CH]
    r, done, bad = tlc.validate_batch(mc, cfg, ctx.scratch, chunk, workers=8, files=files, timeout=3000)
    tlc.check_ok(r, 'C18 cases')
    ctx.states += r.distinct
    ctx.transitions += r.generated
    got = {}
    for v in tlc.extract_prints(r.out, 'DONE'):
      got[v[1]] = set()
    for v in tlc.extract_prints(r.out, 'F'):
      got.setdefault(v[1], set()).add(v[2])
    if len(got) != len(chunk):
      raise Machinery('C18: %d of %d cases judged\n%s' % (len(got), len(chunk), r.out[-2500:]))
    for i in range(1, len(chunk) + 1):
      verdicts[k + i - 1] = got[i]
  for i, rec in enumerate(recs):
    ctx.traces += 1
    if (rec['kind'] == 'series' and len(rec['tags']) >= 2) or any(ch in rec['text'] for ch in '!^~{}"\\'):
      ctx.nontriv(i)
    for f in sorted(verdicts[i] & PROP):
      ctx.violation(WHAT[f], dict(input=rec['text'], kind=rec['kind'], parsed=''.join(map(chr, rec['parsed'])),
                                  stored=''.join(map(chr, rec['stored']))), signature=f)
  ctx.sample(dict(kind='tag case', input=recs[-1]['text'], parsed=''.join(map(chr, recs[-1]['parsed']))))
  import copy
  cand = [r for r in recs if r['kind'] == 'series' and len(r['tags']) >= 2 and r['ok']]
  if not cand:
    if not ctx.violations:
      raise Machinery('C18: no accepted multi-tag series among the cases')
    ctx.neg_controls.append(dict(name='skipped: no series was accepted (every case is flagged)', rejected=True))
    return
  bad = copy.deepcopy(cand[0])
  bad['parsed'] = bad['parsed'][::-1]
  r, done, b2 = tlc.validate_batch(mc, cfg, ctx.scratch, [bad], workers=1, files=files)
  fl = set(v[2] for v in tlc.extract_prints(r.out, 'F'))
  ctx.negative_control('a recorded normalised name reversed', bool(fl & {'not-canonical', 'parse'}))


def replay(ctx, rp):
  raise NotImplementedError('rerun ./check C18 with the same VERIF_SEED')
