"""C09 - back-pressure always lets go: paused receivers are resumed once buffers drain.

Cache side.  A. TLC: FlowCache.tla (store's cacheFull chain under the lock on the reactor
  thread, pop's unlocked check and cacheSpaceAvailable chain on the writer thread, handler
  lists iterated by index while receivers connect/disconnect) - NoStuck at quiescence.
  C. the real MetricCache + carbon.events + service.py wiring + real receivers, two threads
  interleaved at line granularity (bounded pre-emptions, then random), run to quiescence;
  FlowCache_Trace.tla flags 'stuck' and the signature of the listed finding.
Relay side.  A. TLC: Relay.tla NoStuck.  B/C. the C07 machinery (TLC-simulated and random
  event histories on the real client stack, settled to quiescence); Relay_Trace.tla 'stuck'.
"""
import random

from . import flowsys, relaysys, relaycheck, sched, tlc
from .core import Machinery

WHAT_STUCK = 'quiescent and below the low watermark, yet receivers are still paused'


def landmarks():
  import re
  try:
    ev = open(flowsys_env().events.__file__).read().split('\n')
    ca = open(flowsys_env().cache.__file__).read().split('\n')
    handler = [i + 1 for i, l in enumerate(ev) if re.search(r'\bhandler\(\*args', l)][0]
    space = [i + 1 for i, l in enumerate(ca) if 'events.cacheSpaceAvailable()' in l][0]
    return dict(handler=handler, space=space)
  except (IndexError, IOError):
    return None


_FM = {}


def flowsys_env():
  return _FM['fm']


def directed_workloads(ctx):
  out = []
  for nr in (1, 2):
    conn = [('connect', c) for c in range(1, nr + 1)]
    stores1 = [('store', 'm4', t, t) for t in (1, 2, 3, 4)]
    stores2 = [('store', 'm5', t, 4 + t) for t in (1, 2, 3, 4)]
    out.append((dict(max=20, nr=nr, strategy='naive', focus=True, prefill=[('m1', 9), ('m2', 8)]),
                conn + stores1 + stores2, [('drain',)]))
    out.append((dict(max=20, nr=nr, strategy='naive', focus=True, prefill=[('m1', 9), ('m2', 8)]),
                conn + stores1 + [('disconnect', 1)] + stores2, [('drain',), ('drain',)]))
    out.append((dict(max=20, nr=nr, strategy='sorted', focus=False, prefill=[('m1', 10), ('m2', 6), ('m3', 3)]),
                conn + [('store', 'm4', 1, 1), ('store', 'm4', 2, 2), ('store', 'm5', 1, 3)], [('drain',), ('drain',), ('drain',)]))
  return out


def directed_plans(lm, ctx):
  plans = []
  H, SP = lm['handler'], lm['space']
  for k in range(1, ctx.pick(5, 8)):
    # writer parked right before it fires cacheSpaceAvailable; storing thread refills and is parked before
    # the k-th handler call of its next chains; writer's chain runs; storing thread finishes
    plans.append([('S', ('pred', 'paused')), ('W', ('line', '_check_available_space', SP, 1)),
                  ('S', ('line', '__call__', H, k)), ('W', ('done',)), ('S', ('done',))])
    # the other way round: writer parked before the k-th handler call of its space chain; the storing
    # thread runs on (stores, disconnects: handler lists change under the writer's iteration)
    plans.append([('S', ('pred', 'paused')), ('W', ('line', '__call__', H, k)), ('S', ('done',)), ('W', ('done',))])
    plans.append([('S', ('pred', 'paused')), ('W', ('line', '__call__', H, k)), ('S', ('line', '__call__', H, 2)),
                  ('W', ('done',)), ('S', ('done',))])
  for n in range(1, ctx.pick(9, 14)):
    # lock-release windows: right after the n-th release of the cache lock by one thread the other thread runs
    # one operation / all its operations
    plans.append([('S', ('kind', 'release', n)), ('W', ('kind', 'op', 1)), ('S', ('done',)), ('W', ('done',))])
    plans.append([('S', ('kind', 'release', n)), ('W', ('done',)), ('S', ('done',))])
    plans.append([('W', ('kind', 'release', n)), ('S', ('kind', 'op', 1)), ('W', ('done',)), ('S', ('done',))])
    plans.append([('W', ('kind', 'release', n)), ('S', ('done',)), ('W', ('done',))])
  return plans


def cache_side(ctx):
  # A. model
  for copy in ('TRUE',):
    consts = dict(MaxC=2, LowC=2, HardC=3, NR=2, MaxStores=ctx.pick(5, 6), MaxConn=ctx.pick(3, 4), CopyHandlers=copy)
    cfg = tlc.cfg_text(spec='Spec', constants=consts, invariants=['TypeOK', 'Bound', 'NoStuck'])
    res = tlc.check_ok(tlc.run('FlowCache', cfg, ctx.scratch, coverage=True), 'FlowCache')
    ctx.add_tlc('FlowCache[copy=%s]' % copy, res)
    if res.violated == 'NoStuck':
      ctx.cov['FlowCache_model_counterexample'] = [a for a, _ in res.cex]
    elif res.violated:
      raise Machinery('FlowCache.tla violates %s' % res.violated)
  # C. code
  fm = flowsys.FlowModules(ctx.scratch)
  _FM['fm'] = fm
  traces, origins, seen = [], [], set()

  def sink(tr, org):
    import json
    k = json.dumps(tr, sort_keys=True)
    if k in seen:
      return
    seen.add(k)
    traces.append(tr)
    origins.append(org)
  nwork = ctx.pick(6, 18)
  for w in range(nwork):
    nr = ctx.rng.choice([1, 2, 2, 3])
    mx, pre, s_ops, w_ops = flowsys.gen_workload(ctx.rng, nr)
    cfg = dict(max=mx, nr=nr, prefill=pre, strategy=ctx.rng.choice(['sorted', 'max', 'naive']), focus=(w % 3 != 2), zero_dups=(w % 3 == 1))

    def run_once(chooser):
      run = flowsys.FlowRun(fm, cfg, s_ops, w_ops)
      tr, log = run.execute(chooser)
      run_once.last = tr
      return log
    base = dict(cfg=cfg, s_ops=s_ops, w_ops=w_ops)
    for forced, log in sched.explore_bounded(run_once, 2, limit=ctx.pick(150, 2500), rng=ctx.rng):
      ctx.evaluations += 1
      sink(run_once.last, dict(base, kind='bounded', forced=sorted(forced.items())))
    for i in range(ctx.pick(40, 300)):
      seed = ctx.rng.randrange(1 << 30)
      rr = random.Random(seed)
      run_once(sched.random_chooser(rr, switch_p=rr.choice([0.05, 0.2, 0.5])))
      ctx.evaluations += 1
      sink(run_once.last, dict(base, kind='random', rseed=seed))
  # landmark-directed schedules: the windows found by TLC on FlowCache.tla (writer parked between its
  # unlocked space check and the event, storing thread parked inside its cacheFull chain, and the
  # other way round) are driven explicitly; landmarks are located in the source text
  lm = landmarks()
  if lm is None:
    ctx.note_drift('landmark lines (events.cacheSpaceAvailable() call / handler call in Event.__call__) not found in the source')
  else:
    for wi, (cfg, s_ops, w_ops) in enumerate(directed_workloads(ctx)):
      for plan in directed_plans(lm, ctx):
        holder = {}

        def run_once2(chooser_factory):
          run = flowsys.FlowRun(fm, cfg, s_ops, w_ops)
          holder['run'] = run
          return run.execute(chooser_factory)
        paused = lambda name: bool(fm.state.metricReceiversPaused)
        ch = sched.landmark_chooser(lambda: holder['run'].sched, plan, state_pred=paused)
        tr, log = run_once2(ch)
        ctx.evaluations += 1
        sink(tr, dict(cfg=cfg, s_ops=s_ops, w_ops=w_ops, kind='landmarks', plan=[list(map(list, p)) if False else [p[0], list(p[1])] for p in plan]))
  verdicts = flowsys.judge(ctx, traces, 'C09 cache-side traces')
  npaused = 0
  for i, tr in enumerate(traces):
    ctx.traces += 1
    if any(e['k'] == 'obs' and e['paused'] for e in tr['ev']):
      npaused += 1
      ctx.nontriv(('paused', i))
    fl = verdicts[i]
    race = 'wrace' in fl or 'overlap' in fl
    if 'stuck' in fl or 'newconn' in fl:
      what = ('cache side: ' + WHAT_STUCK) if 'stuck' in fl else \
             'a connection made while receivers were paused was left producing (or the reverse)'
      sig = 'f8' if race else ('stuck' if 'stuck' in fl else 'newconn')
      ctx.violation(what + (' [a cacheSpaceAvailable chain ran on the writer thread during a reactor-thread operation]' if race else ''),
                    dict(origin=origins[i], flags=sorted(fl), events=tr['ev'][-25:]), signature=sig)
  ctx.cov['cache_side_traces_with_pause'] = npaused
  ctx.cov['cache_side_distinct_traces'] = len(traces)
  if traces:
    ctx.sample(dict(kind='cache-side execution', origin={k: v for k, v in origins[0].items() if k != 'forced'},
                    events=traces[0]['ev'][:20]))
  # negative control: a trace that ends paused must be flagged
  import copy
  bad = copy.deepcopy(traces[0])
  bad['ev'][-1]['paused'] = True
  bad['ev'][-1]['size'] = 0
  v = flowsys.judge(ctx, [bad], 'negative control')
  ctx.negative_control('final state forced to paused', 'stuck' in v[0])


def relay_side(ctx):
  rm = relaysys.RelayModules(ctx.scratch)
  mcs = [dict(nd=1, maxq=2, mpm=5, flow=True, dynamic=False), dict(nd=2, maxq=2, mpm=2, flow=True, dynamic=False)]
  if not ctx.quick:
    mcs += [dict(nd=2, maxq=2, mpm=5, flow=True, dynamic=True), dict(nd=1, maxq=3, mpm=1, flow=True, dynamic=True)]
  # one-datapoint batches with the dynamic router: a full queue can be emptied by the removal of its destination (F18)
  mcs.append(dict(nd=2, maxq=2, mpm=1, flow=True, dynamic=True))
  for i, c in enumerate(mcs):
    rm.configure(dict(c, nr=1))
    # (the one-datapoint dynamic configuration has by far the largest state space: 47 M states at 5 items / 4 connection
    # events; it is explored at 5 / 3)
    consts = relaycheck.consts_for(rm, ctx.pick(4, 5), 3 if (c.get('mpm') == 1 and c.get('nd') == 2) else ctx.pick(3, 4))
    res = relaycheck.model_check(ctx, 'Relay-flow#%d' % i, consts, ['TypeOK', 'NoStuck'], timeout=2400)
    if res.violated:
      raise Machinery('Relay.tla violates %s: %s' % (res.violated, [a for a, _ in res.cex]))
  # the repaired defect F18 stays reachable in the model of the unrepaired removal (documentation of the witness)
  rm.configure(dict(nd=2, maxq=2, mpm=1, flow=True, dynamic=True, nr=1))
  consts = relaycheck.consts_for(rm, 4, 3, removal_releases=False)
  cfgt = tlc.cfg_text(spec='Spec', constants=consts, invariants=['NoStuck'], constraints=['Bound'])
  res = tlc.check_ok(tlc.run('Relay', cfgt, ctx.scratch, timeout=900), 'F18 witness')
  ctx.cov['F18_model_witness'] = [a for a, _ in res.cex]
  if res.violated != 'NoStuck':
    raise Machinery('Relay.tla with RemovalReleases = FALSE no longer shows F18')
  cfgs = [dict(nd=1, maxq=2, mpm=5, flow=True, dynamic=False, nr=2, wbuf=True),     # wbuf: writes that overflow the transport's buffer pause the client inside write()
          dict(nd=1, maxq=1, mpm=1, flow=True, dynamic=False, nr=1, protocol='line'),        # low watermark 0.8 of one datapoint; plaintext client
          dict(nd=1, maxq=3, mpm=2, flow=True, dynamic=True, max_retries=1, nr=2),    # the only destination comes and goes
          dict(nd=2, maxq=4, mpm=10, flow=True, dynamic=True, max_retries=1, nr=1, wbuf=True),
          dict(nd=3, maxq=3, mpm=2, flow=True, dynamic=True, max_retries=1, nr=2),
          # proportions in which one batch takes a full queue to between the low watermark and MAX_QUEUE_SIZE
          dict(nd=2, maxq=5, mpm=2, flow=True, dynamic=True, max_retries=1, nr=1)]
  if not ctx.quick:
    cfgs += [dict(nd=4, maxq=5, mpm=3, flow=True, dynamic=True, max_retries=2, nr=2, low_pct=0.5),
             dict(nd=2, maxq=10, mpm=4, flow=True, dynamic=False, nr=1, low_pct=0.2, hard_pct=2.0),
             dict(nd=2, maxq=3, mpm=1, flow=True, dynamic=False, nr=3, protocol='line')]
  for ci, cfg in enumerate(cfgs):
    consts, traces, origins = relaycheck.run_traces(ctx, rm, cfg, nsim=ctx.pick(30, 200), nrandom=ctx.pick(120, 600),
                                                    nevents=ctx.pick(40, 100), seed_base=ctx.seed + 50 + ci)
    verdicts = relaycheck.judge(ctx, consts, traces, 'C09 relay traces cfg %d' % ci)
    relaycheck.report(ctx, traces, origins, verdicts, relaycheck.C09_FLAGS)
    if ci == 0:
      ctx.sample(dict(kind='relay-side history', cfg=cfg, events=[[e['e'], e['arg']] for e in traces[-1]['ev'][:25]]))


def run(ctx):
  ctx.rule = ('cache side: a cache pre-filled to just below MAX_CACHE_SIZE = 20, 2-5 more stores, 1-3 drains, 1-3 receivers connecting/disconnecting, all '
              'schedules with <= k pre-emptions at line granularity over cache.py/events.py/protocols.py then random, each run '
              'to quiescence; relay side: TLC-simulated and random event histories settled to quiescence; non-trivial = '
              'receivers were paused at some point of the execution')
  ctx.assumptions += ['quiescence excludes the 60 s self-metrics timer (CARBON_METRIC_INTERVAL), as "all timers fired" implies']
  cache_side(ctx)
  relay_side(ctx)
  # beyond the listed property: admission of client connections (MAX_RECEIVER_CONNECTIONS) - a listening port
  # paused at the limit must listen again when a connection goes away (Listen.tla; deviations reported as drift)
  from . import listensys
  listensys.section(ctx)


def replay(ctx, rp):
  org = rp['replay']['origin']
  if 's_ops' in org:
    fm = flowsys.FlowModules(ctx.scratch)
    run = flowsys.FlowRun(fm, org['cfg'], [tuple(o) for o in org['s_ops']], [tuple(o) for o in org['w_ops']])
    if org['kind'] == 'bounded':
      ch = sched.forced_chooser(dict((int(s), t) for s, t in org['forced']))
    else:
      rr = random.Random(org['rseed'])
      ch = sched.random_chooser(rr, switch_p=rr.choice([0.05, 0.2, 0.5]))
    tr, log = run.execute(ch)
    v = flowsys.judge(ctx, [tr], 'replay')
    ctx.evaluations = 1
    ctx.traces = 1
    if 'stuck' in v[0] or 'newconn' in v[0]:
      race = 'wrace' in v[0] or 'overlap' in v[0]
      ctx.violation('cache side: ' + WHAT_STUCK, dict(origin=org, flags=sorted(v[0])),
                    signature='f8' if race else ('stuck' if 'stuck' in v[0] else 'newconn'))
  else:
    rm = relaysys.RelayModules(ctx.scratch)
    tr = relaycheck.rerun(rm, org)
    consts = relaycheck.consts_for(rm, 0, 0)
    ctx.evaluations = 1
    v = relaycheck.judge(ctx, consts, [tr], 'replay')
    relaycheck.report(ctx, [tr], [org], v, relaycheck.C09_FLAGS)
