"""C17 - every write strategy drains consistently, completely and without starvation.

A. TLC: Cache.tla per strategy - NeverFails (modulo the listed finding F9), NoEmptyBatch,
   FairPass, MaxFirst, LagRespected; liveness DrainsEverything under fairness (no state
   constraint, history variables switched off).
B. spec->code replays of simulated behaviours (generator snapshots, buckets compared).
C. code->spec: line-level exploration per strategy; 'chose' events (logged under the cache
   lock) let CacheLin.tla evaluate pass fairness / max-first / lag at the choice, and any
   exception out of store()/drain_metric() is a trace event.
The TLC counter-example for NeverFails under bucketmax is replayed on the real cache: while
it reproduces, the finding F9 is reported as KNOWN-FINDING.
"""
from . import cachesys, cachecheck, tlc
from .core import Machinery


def f9_witness(ctx, mods):
  consts = cachesys.model_constants('bucketmax', stores=3, drains=2)
  cfg = tlc.cfg_text(spec='Spec', constants=consts, invariants=['NeverFails'])
  res = tlc.check_ok(tlc.run('Cache', cfg, ctx.scratch), 'F9 reachability')
  ctx.states += res.distinct
  ctx.transitions += res.generated
  if res.violated != 'NeverFails':
    ctx.note_drift('Cache.tla no longer reaches the bucketmax store failure (F9)')
    return None
  beh = [(a, s) for a, s in res.cex]
  tr, drift = cachesys.replay_behaviour(mods, beh, 'bucketmax', 0, 0)
  ctx.evaluations += 1
  return tr, dict(kind='replay', strategy='bucketmax', hard=0, lag=0, actions=[a for a, _ in beh[1:]], drift=drift,
                  note='TLC counter-example of NeverFails replayed on the real cache')


def run(ctx):
  ctx.rule = ('per strategy: workloads over 2-5 metrics x 2-4 timestamps, MIN_TIMESTAMP_LAG 0 and >0 on a virtual clock, '
              'bounded and unbounded cache; all schedules with <= k pre-emptions at line granularity then random; '
              'non-trivial = overlapping operations; store_in_choose_pop_window counts traces where a store ran '
              'between choose_item() and pop()')
  ctx.assumptions += ['random strategy: the choice is any cached metric (seeded)',
                      'line granularity, not bytecode granularity']
  models, sims, expl = [], [], []
  for st in cachesys.STRATEGIES:
    lags = [0, 2] if st == 'timesorted' else [0]
    for lag in lags:
      for hard in (0, 2):
        if ctx.quick and hard and st not in ('sorted', 'bucketmax'):
          continue
        models.append(('Cache[%s,lag=%d,hard=%d]' % (st, lag, hard),
                       cachesys.model_constants(st, hard=hard, lag=lag, stores=ctx.pick(4, 5), drains=3,
                                                metrics=ctx.pick(2, 3), tss=2, maxnow=5),
                       cachecheck.INV_C17, [], 'Spec'))
      models.append(('Cache-live[%s,lag=%d]' % (st, lag),
                     cachesys.model_constants(st, lag=lag, stores=3, drains=0, metrics=2, tss=2, maxnow=6, history=False),
                     [], ['DrainsEverything'], 'LiveSpec'))
      sims.append((st, 0, lag, ctx.pick(40, 400), 20))
      for w in range(ctx.pick(2, 6)):
        big = (not ctx.quick) and w >= 3
        r_ops, w_ops = cachesys.gen_workload(ctx.rng, nmetrics=5 if big else 3, nts=4 if big else 2,
                                             nstores=ctx.pick(5, 7 if big else 5), ndrains=3,
                                             nqueries=2, ticks=(st == 'timesorted'))       # cache queries (single and bulk) interleaved with stores and drains
        cfg = dict(strategy=st, max=(ctx.rng.choice([2, 3]) if w % 2 == 1 else None), flow=False, lag=lag)   # every second workload: bounded cache (refusals)
        if lag and w % 2 == 0:
          cfg['shutdown_flush'] = True      # the run ends with the shutdown hook's MIN_TIMESTAMP_LAG = 0 instead of time passing
        expl.append((cfg, r_ops, w_ops, ctx.pick(1, 2), ctx.pick(40, 200), ctx.pick(150, 1200)))
  # an orderly shutdown with datapoints younger than MIN_TIMESTAMP_LAG in the cache: the writer has already drained once
  # with the lag in force; the shutdown hook sets the lag to 0 and the final passes must hand out everything
  r_ops = [('store', 'm1', 1, 1), ('store', 'm2', 1, 2), ('tick', 5), ('store', 'm2', 5, 3), ('store', 'm3', 4, 4), ('store', 'm1', 5, 5)]
  expl.append((dict(strategy='timesorted', max=None, flow=False, lag=2, shutdown_flush=True), r_ops, [('drain',)] * 2, ctx.pick(1, 2), ctx.pick(10, 60), ctx.pick(60, 400)))
  # strategies that scan the whole cache to choose (max, random): NEW series appear while the scan is under way
  for st in ('max', 'random'):
    r_ops = [('store', 'm1', 1, 1), ('store', 'm2', 1, 2), ('store', 'm3', 1, 3), ('store', 'm4', 1, 4)]
    expl.append((dict(strategy=st, max=None, flow=False, lag=0), r_ops, [('drain',)] * 2, 2, ctx.pick(10, 60), ctx.pick(500, 3000)))
  # scale: hundreds of datapoints per series (the size-ordered strategies must still pick the largest)
  for st in ('bucketmax', 'max'):
    sizes = [ctx.pick(300, 700), ctx.pick(270, 400), 5]
    pairs = [(m + 1, t) for m, n in enumerate(sizes) for t in range(1, n + 1)]
    ctx.rng.shuffle(pairs)
    r_ops = [('store', 'm%d' % m, t, i + 1) for i, (m, t) in enumerate(pairs)]
    expl.append((dict(strategy=st, max=None, flow=False, lag=0, coarse=True), r_ops, [('drain',)] * 3, 0, 1, 1))
  mods, col, verdicts = cachecheck.run_plan(ctx, 'C17', models, sims, expl)
  w = f9_witness(ctx, mods)
  if w:
    tr, org = w
    c2 = cachesys.Collector()
    c2(tr, org)
    v2 = cachesys.judge(ctx, c2.traces, 'F9 witness')
    cachecheck.report(ctx, c2, v2, 'C17')
    if not (v2[0][0] == 'ok' and 'f9' in v2[0][1]):
      ctx.note_drift('the model counter-example for F9 does not raise on the real code any more')


def replay(ctx, rp):
  cachecheck.replay(ctx, rp, 'C17')
