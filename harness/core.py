"""Check context: evidence, violations, known findings, exit codes.

Exit codes: 0 held (possibly KNOWN-FINDING / DRIFT lines), 1 VIOLATION, 2 machinery failure.
"""
import json
import os
import random
import sys
import time
import traceback

VERIF = os.path.dirname(os.path.dirname(os.path.abspath(__file__)))
KF_FILE = os.path.join(VERIF, 'known_findings.json')


class Ctx(object):
  def __init__(self, pid, tier, seed, scratch):
    self.pid = pid
    self.tier = tier
    self.seed = seed
    self.scratch = scratch
    self.rng = random.Random(seed)
    self.t0 = time.time()
    self.states = 0
    self.transitions = 0
    self.traces = 0
    self.evaluations = 0
    self.nontrivial = set()
    self.nontrivial_extra = 0
    self.samples = []
    self.violations = []
    self.known_hit = {}
    self.drift = []
    self.cov = {}
    self.assumptions = []
    self.tlc_runs = []
    self.actions_covered = {}
    self.rule = ''
    self.exhaustive = None
    self.value_oracles = []
    self.neg_controls = []
    with open(KF_FILE) as fh:
      self.kf = json.load(fh)

  @property
  def quick(self):
    return self.tier == 'quick'

  def pick(self, quick, thorough):
    return quick if self.quick else thorough

  # -- TLC accounting --------------------------------------------------------------
  def add_tlc(self, name, res, must_cover=None):
    self.states += res.distinct
    self.transitions += res.generated
    self.tlc_runs.append(dict(name=name, **res.summary()))
    for a, (taken, dist) in res.coverage.items():
      o = self.actions_covered.get(a, 0)
      self.actions_covered[a] = o + taken
    if must_cover:
      for a in must_cover:
        if res.coverage.get(a, (0, 0))[1] == 0:
          raise Machinery('vacuity: action %s never taken in %s' % (a, name))

  def sample(self, obj, limit=6):
    if len(self.samples) < limit:
      self.samples.append(obj)

  def nontriv(self, key):
    self.nontrivial.add(key)

  # -- verdicts --------------------------------------------------------------------
  def violation(self, what, replay, signature=None):
    """Record a property-level failure observed on the real code.  If `signature`
    matches a listed known finding it is reported as KNOWN-FINDING instead."""
    for f in self.kf.get('findings', []):
      if f.get('property') == self.pid and signature is not None and f.get('signature') == signature:
        if f['id'] not in self.known_hit:
          self.known_hit[f['id']] = dict(what=f['what'], example=replay, count=0)
        self.known_hit[f['id']]['count'] += 1
        return False
    if len(self.violations) < 20:
      os.makedirs(os.path.join(VERIF, 'replays'), exist_ok=True)
      path = os.path.join(VERIF, 'replays', '%s-%s-%d-%d.json' % (
        self.pid, self.tier, self.seed, len(self.violations)))
      with open(path, 'w') as fh:
        json.dump(dict(property=self.pid, what=what, signature=signature, replay=replay), fh,
                  indent=1, default=repr)
      self.violations.append((what, path))
    else:
      self.violations.append((what, self.violations[0][1]))
    return True

  def note_drift(self, what):
    if len(self.drift) < 20:
      self.drift.append(what)

  def negative_control(self, name, rejected):
    self.neg_controls.append(dict(name=name, rejected=bool(rejected)))
    if not rejected and not self.violations:
      raise Machinery('negative control %r was accepted: the check binds nothing' % name)

  # -- output ----------------------------------------------------------------------
  def finish(self):
    wall = time.time() - self.t0
    cov = dict(self.cov)
    nt = len(self.nontrivial) + self.nontrivial_extra
    cov.update(dict(
      states=int(self.states), transitions=int(self.transitions),
      traces_validated_against_impl=int(self.traces),
      evaluations=int(self.evaluations), distinct_nontrivial=int(nt),
      rule=self.rule, samples=self.samples or ['(none)'],
      tlc_runs=self.tlc_runs, actions_covered=self.actions_covered,
      drift=self.drift, negative_controls=self.neg_controls,
      value_oracles=self.value_oracles,
      known_findings_reproduced=[dict(id=k, what=v['what'], occurrences=v['count'])
                                 for k, v in self.known_hit.items()],
      checker_cmd='./check %s --tier %s' % (self.pid, self.tier),
    ))
    if self.exhaustive is not None:
      cov['exhaustive'] = bool(self.exhaustive)
    ev = dict(property_id=self.pid, tier=self.tier, seed=int(self.seed), level='model_checking',
              coverage=cov, assumptions=self.assumptions, wall_s=round(wall, 2),
              violations=len(self.violations))
    os.makedirs(os.path.join(VERIF, 'evidence'), exist_ok=True)
    with open(os.path.join(VERIF, 'evidence', '%s.json' % self.pid), 'w') as fh:
      json.dump(ev, fh, indent=1, default=repr)
    for d in self.drift:
      print('DRIFT property=%s %s' % (self.pid, d))
    for k, v in self.known_hit.items():
      print('KNOWN-FINDING: property=%s %s [%s, %d occurrences this run]' % (self.pid, v['what'], k, v['count']))
    seen = set()
    for what, path in self.violations:
      if path in seen:
        continue
      seen.add(path)
      print('VIOLATION property=%s replay=%s  (%s)' % (self.pid, path, what))
    print('%s %s: states=%d transitions=%d traces=%d evaluations=%d nontrivial=%d wall=%.1fs -> %s' % (
      self.pid, self.tier, self.states, self.transitions, self.traces, self.evaluations, nt, wall,
      'VIOLATION' if self.violations else 'ok'))
    return 1 if self.violations else 0


class Machinery(Exception):
  pass


def main(argv):
  import argparse
  ap = argparse.ArgumentParser()
  ap.add_argument('pid')
  ap.add_argument('--tier', default=os.environ.get('VERIF_TIER', 'quick'))
  ap.add_argument('--replay', default=None)
  a = ap.parse_args(argv)
  seed = int(os.environ.get('VERIF_SEED', '0') or 0)
  pid = a.pid.upper()
  from . import tlc
  import importlib
  try:
    mod = importlib.import_module('harness.%s' % pid.lower())
  except ImportError:
    traceback.print_exc()
    print('MACHINERY-FAILURE property=%s no such check' % pid)
    return 2
  with tlc.Scratch(prefix='verif-%s-' % pid) as scratch:
    ctx = Ctx(pid, a.tier, seed, scratch)
    try:
      if a.replay:
        with open(a.replay) as fh:
          rp = json.load(fh)
        mod.replay(ctx, rp)
      else:
        mod.run(ctx)
        # the start-up half of the property: what the daemon derives from carbon.conf and how carbon.service wires it
        from . import bootcheck
        if pid in bootcheck.FLAGS:
          bootcheck.section(ctx, pid)
      return ctx.finish()
    except (Machinery, tlc.MachineryError) as e:
      print('MACHINERY-FAILURE property=%s %s' % (pid, e))
      return 2
    except Exception as e:
      traceback.print_exc()
      # An exception raised INSIDE carbon (innermost frames under <repo>/lib/carbon) while the check drove
      # it through a scenario of this property is the code failing where the property demands an outcome:
      # report it as a violation (the harness never relies on carbon raising).  Anything else is ours.
      tb = traceback.extract_tb(e.__traceback__)
      repo_lib = os.path.join(os.environ.get('VERIF_REPO', '/repo'), 'lib', 'carbon') + os.sep
      # (a RecursionError surfaces wherever the stack happens to run out: it is carbon's when carbon's frames fill the stack)
      deep = isinstance(e, RecursionError) and sum(1 for f in tb[-60:] if f.filename.startswith(repo_lib)) >= 40
      if deep:
        last = [f for f in tb if f.filename.startswith(repo_lib)][-1]
        tb = list(tb[:tb.index(last) + 1])
      if tb and os.path.realpath(tb[-1].filename).startswith(os.path.realpath(repo_lib) + os.sep) or \
         (tb and tb[-1].filename.startswith(repo_lib)):
        where = '%s:%d in %s' % (os.path.relpath(tb[-1].filename, os.path.dirname(os.path.dirname(repo_lib.rstrip(os.sep)))), tb[-1].lineno, tb[-1].name)
        try:
          ctx.violation('carbon raised %s (%s) at %s while the check exercised it; the scenario could not be completed'
                        % (type(e).__name__, str(e)[:120], where),
                        dict(exception=repr(e), where=where, stack=[('%s:%d %s' % (f.filename, f.lineno, f.name)) for f in tb[-8:]]),
                        signature='escaped:' + type(e).__name__)
          return ctx.finish()
        except Exception:
          traceback.print_exc()
      print('MACHINERY-FAILURE property=%s unexpected exception' % pid)
      return 2
