"""Driver for TLC / SANY: model checking, simulation, batch trace validation.

Every run happens in a private scratch directory outside /repo and /verif which is
removed by the caller's `Scratch` context.  Specs are copied from /verif/spec.
"""
import glob
import json
import itertools
import os
import re
import shutil
import subprocess
import tempfile
import time

from . import tlaval

VERIF = os.path.dirname(os.path.dirname(os.path.abspath(__file__)))
SPEC_DIR = os.path.join(VERIF, 'spec')
JAR = '/opt/veriftools/tla/tla2tools.jar:/opt/veriftools/tla/CommunityModules-deps.jar'


class MachineryError(Exception):
  pass


class Scratch(object):
  def __init__(self, prefix='verif-'):
    self.prefix = prefix
    self.path = None

  def __enter__(self):
    base = os.environ.get('VERIF_SCRATCH_BASE', tempfile.gettempdir())
    self.path = tempfile.mkdtemp(prefix=self.prefix, dir=base)
    return self.path

  def __exit__(self, *a):
    shutil.rmtree(self.path, ignore_errors=True)


class Result(object):
  def __init__(self):
    self.rc = None
    self.out = ''
    self.generated = 0
    self.distinct = 0
    self.depth = 0
    self.ok = False
    self.violated = None      # name of violated invariant/property, 'deadlock', ...
    self.error = None         # machinery-level error text
    self.prints = []
    self.coverage = {}        # action name -> (taken, distinct)
    self.wall = 0.0
    self.cex = []             # counter-example states (list of (action, dict))

  def summary(self):
    return dict(generated=self.generated, distinct=self.distinct, depth=self.depth,
                ok=self.ok, violated=self.violated, wall_s=round(self.wall, 2))


def _copy_specs(workdir, files):
  for f in glob.glob(os.path.join(SPEC_DIR, '*.tla')):
    shutil.copy(f, workdir)
  for name, content in (files or {}).items():
    with open(os.path.join(workdir, name), 'w') as fh:
      fh.write(content)


_PRINT_START = re.compile(r'^(<<|\[|\{|"|\()')


def extract_prints(out, tag=None):
  """Collect values printed by PrintT.  Values are TLA+ text; multi-line values are
  re-joined by bracket matching."""
  vals = []
  lines = out.splitlines()
  i = 0
  while i < len(lines):
    ln = lines[i]
    if ln.startswith('<<"'):
      buf = ln
      depth = buf.count('<<') - buf.count('>>')
      while depth > 0 and i + 1 < len(lines):
        i += 1
        buf += ' ' + lines[i].strip()
        depth = buf.count('<<') - buf.count('>>')
      try:
        v = tlaval.parse(buf)
        if tag is None or (v and v[0] == tag):
          vals.append(v)
      except ValueError:
        pass
    i += 1
  return vals


def _parse(res):
  out = res.out
  m = None
  for m in re.finditer(r'(\d+) states generated, (\d+) distinct states found', out):
    pass
  if m:
    res.generated = int(m.group(1))
    res.distinct = int(m.group(2))
  m = re.search(r'depth of the complete state graph search is (\d+)', out)
  if m:
    res.depth = int(m.group(1))
  if 'Model checking completed. No error has been found.' in out:
    res.ok = True
  m = re.search(r'Error: Invariant (\S+) is violated', out)
  if m:
    res.violated = m.group(1)
  elif re.search(r'Error: Action property (\S+)? ?.*is violated', out):
    m = re.search(r'Error: Action property (.*?) is violated', out)
    res.violated = m.group(1).strip() if m else 'action-property'
  elif 'Temporal properties were violated' in out:
    res.violated = 'temporal'
  elif 'Deadlock reached' in out:
    res.violated = 'deadlock'
  elif re.search(r'Error: The postcondition', out) or 'POSTCONDITION' in out and 'violated' in out:
    res.violated = 'postcondition'
  elif 'Error:' in out and not res.ok:
    m = re.search(r'Error: (.*)', out)
    res.error = m.group(1) if m else 'unknown TLC error'
    # a violated ASSUME or evaluation error is machinery-level
  for m in re.finditer(r'<(\w+) line \d+, col \d+ to line \d+, col \d+ of module (\w+)(?: \([\d ]+\))?>: (\d+):(\d+)', out):
    name = m.group(1)
    a, b = int(m.group(3)), int(m.group(4))
    old = res.coverage.get(name, (0, 0))
    res.coverage[name] = (old[0] + a, old[1] + b)
  if res.violated and res.violated not in ('postcondition',):
    res.cex = parse_cex(out)
  return res


def parse_cex(out):
  """Counter-example states: list of (action_label, state_dict)."""
  states = []
  for m in re.finditer(r'(?ms)^State (\d+): <([^>\n]*)>\n(.*?)(?=^\s*$)', out):
    label = m.group(2)
    act = label.split(' line ')[0].strip()
    try:
      st = tlaval.parse_state_loose(m.group(3))
    except ValueError:
      st = {'_raw': m.group(3)}
    states.append((act, st))
  return states


_UNIQ = itertools.count()


def run(module, cfg, workdir, workers=None, files=None, extra=None, timeout=1800,
        env=None, coverage=False, deadlock=False, jvm=None, simulate=None):
  """Run TLC on `module` with configuration text `cfg` in `workdir`."""
  _copy_specs(workdir, files)
  cfgname = 'MC_%s_%d_%d.cfg' % (module, int(time.time() * 1000) % 100000, next(_UNIQ))
  with open(os.path.join(workdir, cfgname), 'w') as fh:
    fh.write(cfg)
  meta = tempfile.mkdtemp(prefix='meta-', dir=workdir)
  if workers is None:
    workers = min(16, os.cpu_count() or 4)
  cmd = ['java', '-XX:+UseParallelGC', '-Xss16m', '-Djava.io.tmpdir=%s' % workdir]   # TLC unpacks its standard modules there
  cmd += (jvm or [])
  cmd += ['-cp', JAR, 'tlc2.TLC', '-workers', str(workers), '-metadir', meta,
          '-noGenerateSpecTE', '-config', cfgname]
  if not deadlock:
    cmd += ['-deadlock']
  if coverage:
    cmd += ['-coverage', '1']
  if simulate:
    cmd += ['-simulate', simulate]
  cmd += (extra or [])
  cmd += [module]
  e = dict(os.environ)
  e.update(env or {})
  t0 = time.time()
  res = Result()
  try:
    p = subprocess.run(cmd, cwd=workdir, env=e, stdout=subprocess.PIPE, stderr=subprocess.STDOUT,
                       timeout=timeout)
    res.rc = p.returncode
    res.out = p.stdout.decode('utf-8', 'replace')
  except subprocess.TimeoutExpired as ex:
    res.rc = -9
    res.out = (ex.stdout or b'').decode('utf-8', 'replace')
    res.error = 'timeout after %ds' % timeout
  res.wall = time.time() - t0
  shutil.rmtree(meta, ignore_errors=True)
  _parse(res)
  if simulate and res.rc in (0,) and not res.violated:
    res.ok = True
  return res


def check_ok(res, what):
  """Raise MachineryError unless TLC finished; returns res."""
  if res.error and not res.violated:
    raise MachineryError('%s: TLC error: %s\n%s' % (what, res.error, res.out[-3000:]))
  if not res.ok and not res.violated:
    raise MachineryError('%s: TLC did not finish (rc=%s)\n%s' % (what, res.rc, res.out[-3000:]))
  return res


def sany(module_path):
  cmd = ['java', '-cp', JAR, 'tla2sany.SANY', os.path.basename(module_path)]
  p = subprocess.run(cmd, cwd=os.path.dirname(module_path), stdout=subprocess.PIPE,
                     stderr=subprocess.STDOUT, timeout=120)
  out = p.stdout.decode('utf-8', 'replace')
  ok = p.returncode == 0 and 'error' not in out.lower().replace('semantic errors:\n\n', '')
  return ok, out


def cfg_text(spec=None, init=None, next=None, constants=None, invariants=(), properties=(),
             constraints=(), action_constraints=(), view=None, symmetry=None, postcondition=None,
             check_deadlock=False, alias=None):
  lines = []
  if spec:
    lines.append('SPECIFICATION %s' % spec)
  else:
    lines.append('INIT %s' % init)
    lines.append('NEXT %s' % next)
  if constants:
    lines.append('CONSTANTS')
    for k, v in constants.items():
      if isinstance(v, str) and v.startswith('<-'):
        lines.append('  %s %s' % (k, v))
      else:
        lines.append('  %s = %s' % (k, v if isinstance(v, str) else tlaval.to_tla(v)))
  for i in invariants:
    lines.append('INVARIANT %s' % i)
  for p in properties:
    lines.append('PROPERTY %s' % p)
  for c in constraints:
    lines.append('CONSTRAINT %s' % c)
  for c in action_constraints:
    lines.append('ACTION_CONSTRAINT %s' % c)
  if view:
    lines.append('VIEW %s' % view)
  if symmetry:
    lines.append('SYMMETRY %s' % symmetry)
  if postcondition:
    lines.append('POSTCONDITION %s' % postcondition)
  if alias:
    lines.append('ALIAS %s' % alias)
  lines.append('CHECK_DEADLOCK %s' % ('TRUE' if check_deadlock else 'FALSE'))
  return '\n'.join(lines) + '\n'


# ---------------------------------------------------------------------------------
# behaviours out of TLC

def simulate_behaviours(module, cfg, workdir, num, depth, seed, files=None, timeout=600,
                        extra=None):
  """tlc -simulate file=...: returns list of behaviours, each a list of (action, state)."""
  outdir = os.path.join(workdir, 'sim')
  os.makedirs(outdir, exist_ok=True)
  res = run(module, cfg, workdir, workers=1, files=files,
            simulate='file=%s/tr,num=%d' % (outdir, num),
            extra=['-depth', str(depth), '-seed', str(seed)] + (extra or []), timeout=timeout)
  behs = []
  for f in sorted(glob.glob(os.path.join(outdir, 'tr*'))):
    behs.append(parse_sim_file(open(f).read()))
  shutil.rmtree(outdir, ignore_errors=True)
  return res, behs


def parse_sim_file(text):
  beh = []
  # blocks: "\* <Action line..>" or "\* <Initial predicate>" followed by "STATE_n == \n /\ ..."
  for m in re.finditer(r'(?ms)^\\\* <?([^\n>]*)>?\s*\nSTATE_(\d+) ==\s*\n(.*?)(?=^\s*$|^\\\*|\Z)', text):
    label = m.group(1).strip()
    act = label.split(' line ')[0].strip()
    beh.append((act, tlaval.parse_state_loose(m.group(3))))
  return beh


def dump_graph(module, cfg, workdir, files=None, timeout=900, workers=None):
  """Full state graph with action labels.  Returns (res, nodes{id: state}, edges[(src, label, dst)], init_ids)."""
  dot = os.path.join(workdir, 'graph')
  res = run(module, cfg, workdir, files=files, workers=workers,
            extra=['-dump', 'dot,actionlabels', dot], timeout=timeout)
  nodes, edges, inits = {}, [], []
  path = dot + '.dot'
  if not os.path.exists(path):
    return res, nodes, edges, inits
  with open(path) as fh:
    for ln in fh:
      m = re.match(r'^(-?\d+) \[label="(.*)"(,style = filled)?\]', ln)
      if m:
        txt = m.group(2).replace('\\n', '\n').replace('\\"', '"').replace('\\\\', '\\')
        nodes[m.group(1)] = tlaval.parse_state_loose(txt)
        if m.group(3):
          inits.append(m.group(1))
        continue
      m = re.match(r'^(-?\d+) -> (-?\d+) \[label="([^"]*)"', ln)
      if m:
        edges.append((m.group(1), m.group(3), m.group(2)))
  os.unlink(path)
  return res, nodes, edges, inits


# ---------------------------------------------------------------------------------
# batch trace validation / oracle evaluation

def validate_batch(module, cfg, workdir, traces, files=None, timeout=1800, workers=1,
                   env_name='TRACE_FILE', dfs=True, extra_env=None):
  """`traces` is a JSON-serialisable list; the trace spec reads it with
  JsonDeserialize(IOEnv.TRACE_FILE), chooses tid in Init, and prints <<"DONE", tid>> when
  a behaviour consumed trace tid completely and <<"BAD", tid, ...>> for oracle records
  that fail.  Returns (res, done_ids, bad)."""
  tf = os.path.join(workdir, 'traces_%d_%d.json' % (int(time.time() * 1e6) % 10 ** 9, next(_UNIQ)))
  with open(tf, 'w') as fh:
    json.dump(traces, fh)
  env = {env_name: tf}
  env.update(extra_env or {})
  jvm = ['-Dtlc2.tool.queue.IStateQueue=StateDeque'] if dfs else None
  res = run(module, cfg, workdir, workers=workers, files=files, timeout=timeout, env=env, jvm=jvm)
  done = set()
  bad = []
  for v in extract_prints(res.out):
    if v and v[0] == 'DONE':
      done.add(v[1])
    elif v and v[0] == 'BAD':
      bad.append(v)
  os.unlink(tf)
  return res, done, bad


def mc_wrap(module, complex_consts):
  """For constants whose values the cfg grammar cannot express (tuples, functions, records):
  returns (mc_module_name, {filename: text}, {const: '<- def'}) to pass to run()/cfg_text()."""
  mc = 'MC_' + module
  lines = ['---- MODULE %s ----' % mc, 'EXTENDS %s' % module]
  subst = {}
  for k, v in complex_consts.items():
    lines.append('mc_%s == %s' % (k, v))
    subst[k] = '<- mc_%s' % k
  lines.append('====')
  return mc, {mc + '.tla': '\n'.join(lines) + '\n'}, subst
