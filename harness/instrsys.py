"""carbon.instrumentation's interval counters against Instr.tla: real increment() / recordMetrics() with increments made
WHILE the report is being published (from inside the store / metricGenerated the report itself calls)."""
from . import env, tlc
from .core import Machinery

COUNTERS = {
  'carbon-cache': ['droppedCreates', 'errors', 'committedPoints', 'creates', 'cache.overflow'],
  'carbon-relay': ['destinations.127_0_0_1:2004:a.fullQueueDrops', 'destinations.127_0_0_1:2004:a.attemptedRelays', 'destinations.127_0_0_1:2004:a.sent'],
}
SUFFIX = {'cache.overflow': 'cache.overflow'}


def model(ctx):
  cfg = tlc.cfg_text(spec='Spec', constants=dict(Mode='"model"', Counters='{1,2}', MaxInc=3), invariants=['NothingLost'])
  res = tlc.check_ok(tlc.run('Instr', cfg, ctx.scratch, coverage=True), 'Instr model')
  ctx.add_tlc('Instr', res, must_cover=None if res.violated else ['Inc', 'ReportBegin', 'ReportEnd'])
  if res.violated:
    raise Machinery('Instr.tla violates %s' % res.violated)


def section(ctx, pid, program):
  """flags relevant to `pid` are violations: a discard / drop / error that was counted must show up in a report"""
  model(ctx)
  settings = env.bootstrap(ctx.scratch)
  import carbon.instrumentation as instr
  import carbon.cache as cache
  import carbon.events as events
  import carbon.state as state
  state.events = events
  state.instrumentation = instr
  rng = ctx.rng
  saved = dict(program=settings.get('program'), instance=settings.get('instance'), relay_cache=settings.get('RELAY_CACHE_METRICS'))
  settings['program'] = program
  settings['instance'] = None
  settings['RELAY_CACHE_METRICS'] = False
  settings['CARBON_METRIC_PREFIX'] = 'carbon'
  settings['MAX_CACHE_SIZE'] = float('inf')
  settings['CACHE_SIZE_HARD_MAX'] = float('inf')
  settings['CACHE_SIZE_LOW_WATERMARK'] = float('inf')
  settings['CACHE_WRITE_STRATEGY'] = 'sorted'
  recs, texts = [], []
  base_gen = list(events.metricGenerated.handlers)

  def inc(c):
    instr.increment(c)
    if c == 'committedPoints':
      instr.append('updateTimes', 0.01)      # the writer records an update time with every committed batch
  try:
    for k in range(ctx.pick(6, 40)):
      counters = COUNTERS[program]
      instr.stats.clear()
      instr.prior_stats.clear()
      cache._Cache = None
      mc = cache.MetricCache()
      pub = {c: [] for c in counters}
      first = {c: -1 for c in counters}
      cur_report = [0]
      before = {c: rng.randint(0, 4) for c in counters}
      during = {c: rng.randint(0, 3) for c in counters}
      after = {c: rng.randint(0, 2) for c in counters}
      todo = {}

      def published(name, value):
        for c in counters:
          if name.endswith('.' + c):
            pub[c].append(int(value))
            if cur_report[0] == 0:
              first[c] = max(first[c], 0) + int(value)
        # somebody else counts while the report goes out (one increment per published self-metric until used up)
        for c in counters:
          if todo.get(c, 0) > 0:
            todo[c] -= 1
            inc(c)
            break
      orig_store = mc.store

      def store(metric, datapoint):
        published(metric, datapoint[1])
        return orig_store(metric, datapoint)
      mc.store = store
      events.metricGenerated.handlers[:] = base_gen + [lambda m, dp: published(m, dp[1])]
      nrep = rng.choice([1, 2])
      for c in counters:
        for _ in range(before[c]):
          inc(c)
      for r in range(nrep):
        todo = dict(during) if r == 0 else {}
        cur_report[0] = r
        instr.recordMetrics()
        if r == 0:
          for c in counters:          # whatever the report did not give a chance to count is counted right after it
            for _ in range(todo.get(c, 0)):
              inc(c)
          for c in counters:
            for _ in range(after[c]):
              inc(c)
      ctx.evaluations += 1
      for c in counters:
        recs.append(dict(before=before[c], during=during[c], after=after[c], pub=pub[c], first=first[c], left=int(instr.stats.get(c, 0)), nreports=nrep))
        texts.append(dict(program=program, counter=c, before=before[c], during_the_report=during[c], after=after[c], published=pub[c],
                          left_in_current_interval=int(instr.stats.get(c, 0))))
  finally:
    events.metricGenerated.handlers[:] = base_gen
    cache._Cache = None
    instr.stats.clear()
    instr.prior_stats.clear()
    for k2, v in (('program', saved['program']), ('instance', saved['instance']), ('RELAY_CACHE_METRICS', saved['relay_cache'])):
      if v is None:
        settings.pop(k2, None)
      else:
        settings[k2] = v
  cfg = tlc.cfg_text(spec='Spec', constants=dict(Mode='"trace"', Counters='{}', MaxInc=0), constraints=['Report'])
  res, done, bad = tlc.validate_batch('Instr', cfg, ctx.scratch, recs, workers=2)
  tlc.check_ok(res, 'Instr cases')
  ctx.states += res.distinct
  ctx.transitions += res.generated
  got = {}
  for v in tlc.extract_prints(res.out, 'DONE'):
    got[v[1]] = set()
  for v in tlc.extract_prints(res.out, 'F'):
    got.setdefault(v[1], set()).add(v[2])
  if len(got) != len(recs):
    raise Machinery('Instr: %d of %d cases judged\n%s' % (len(got), len(recs), res.out[-2000:]))
  nbad = 0
  for i, t in enumerate(texts):
    ctx.traces += 1
    for f in sorted(got[i + 1]):
      nbad += 1
      ctx.violation('counted but never reported: the interval counter %s of %s loses increments around recordMetrics() (%s): before %d, during the '
                    'report %d, after %d; published %r, left %d' % (t['counter'], program, f, t['before'], t['during_the_report'], t['after'],
                                                                  t['published'], t['left_in_current_interval']), t, signature='instr:' + f)
  import copy
  if not nbad:
    b = copy.deepcopy(recs[0])
    b['left'] += 1
    res, done, b2 = tlc.validate_batch('Instr', cfg, ctx.scratch, [b], workers=1)
    ctx.negative_control('Instr: a counter value altered in a recorded run', 'counts-lost' in set(v[2] for v in tlc.extract_prints(res.out, 'F')))
