"""C05 - hash routing returns a well-formed replica set for every metric.

A. TLC: Ring.tla over EVERY hash table of a small ring (collisions included) and every
   membership reachable by a few add/remove steps - WellFormed, FullList.
B/C. The real ConsistentHashRing / ConsistentHashingRouter / FastHashingRouter: controlled
   tables (compute_ring_position rebound on the instance) and real md5 / FNV-1a hashes with a
   sweep over ALL 65537 ring positions (compressed to arcs after checking constancy);
   Ring_Trace.tla rebuilds the ring from independently computed reference positions and
   evaluates the property clauses on the observed destination lists.
"""
from . import ringsys, ringcheck


def run(ctx):
  ctx.rule = ('destination sets of 1..8 (server, port, instance) triples, several instances per server, RF 1..4, '
              'DIVERSE_REPLICAS on/off, carbon_ch and fnv1a_ch, membership histories; evaluations = routing decisions '
              'compared; non-trivial = scenario with a removal / colliding replica positions / real ring')
  ctx.assumptions += ['mmh3_ch excluded (mmh3 not installed)', 'hashlib.md5 itself is trusted']
  ctx.value_oracles.append('replica and key ring positions: harness md5-prefix / folded FNV-1a implementations')
  ringcheck.model_runs(ctx, 'C05')
  rm = ringsys.RingModules(ctx.scratch)
  traces = ringcheck.scenarios(ctx, rm, 'C05')
  verdicts = ringsys.judge(ctx, traces, 'C05 scenarios')
  ringcheck.report(ctx, traces, verdicts, ringcheck.C05_FLAGS)
  ringcheck.negative_controls(ctx, traces, verdicts)
  ringcheck.manager_routes(ctx)
  t = traces[0]
  ctx.sample(dict(kind='controlled-table scenario', nodes=t['nodes'], refpos=t['refpos'], ops=t['ops'], rf=t['rf'],
                  diverse=t['diverse'], last_routes=t['steps'][-1]['routes'][:6] if t['steps'] else []))
  ctx.cov['all_65537_positions_swept_per_real_ring'] = True


def replay(ctx, rp):
  raise NotImplementedError('scenarios are regenerated from the seed: run ./check C05 with VERIF_SEED')
