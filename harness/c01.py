"""C01 - well-formed datapoints are ingested exactly, however the byte stream is cut.

A. TLC: Wire.tla - every stream of <= 3 frames x every segmentation: ExactlyOnceInOrder,
   CloseOnlyOversize, AppendOnly.
B/C. Concrete streams of well-formed datapoints (names incl. non-ASCII and every kind of
   printable, timestamps incl. fractional and > 2^31, values incl. +-inf, -0.0, subnormals,
   random 64-bit patterns, integers; any batching; pickle protocols 0-5) are fed to the real
   MetricLineReceiver / MetricPickleReceiver through dataReceived under EVERY single cut
   position (inside a UTF-8 character, inside the 4-byte length prefix), all-1-byte segments and
   random multi-cuts, and to MetricDatagramReceiver per datagram.  A recorder on
   events.metricReceived is the observation; Wire_Trace.tla judges every segment.
"""
import random

from . import wiresys, tlc
from .core import Machinery

PROP = {'escaped', 'closed', 'corrupt', 'lost-or-late', 'early-or-duplicated', 'reordered', 'wrong-datapoints'}
WHAT = {
  'escaped': 'an exception escaped the protocol handler',
  'closed': 'the connection was closed although no frame exceeded the maximum length',
  'corrupt': 'a delivered datapoint is not bit-identical (name, timestamp, value) to the one sent',
  'lost-or-late': 'a datapoint whose frame is complete was not delivered',
  'early-or-duplicated': 'a datapoint was delivered before its frame was complete, or twice',
  'reordered': 'datapoints were delivered out of order',
  'wrong-datapoints': 'the delivered datapoints are not the ones sent',
}


def model(ctx):
  cfg = tlc.cfg_text(spec='Spec', constants=dict(MaxFrames=3, MaxLen=ctx.pick(3, 4)),
                     invariants=['ExactlyOnceInOrder', 'CloseOnlyOversize'], properties=['AppendOnly'])
  res = tlc.check_ok(tlc.run('Wire', cfg, ctx.scratch, coverage=True, timeout=1500), 'Wire model')
  ctx.add_tlc('Wire', res, must_cover=None if res.violated else ['Segment'])
  if res.violated:
    raise Machinery('Wire.tla violates %s' % res.violated)


def good_streams(ctx, rng, n):
  """(proto, frames) with only well-formed frames"""
  out = []
  for k in range(n):
    proto = ['line', 'pickle', 'udp'][k % 3]
    nframes = rng.randint(1, 3)
    frames = []
    for _ in range(nframes):
      if proto == 'pickle':
        dps = [wiresys.gen_datapoint(rng) for _ in range(rng.randint(1, 3))]
        if rng.random() < 0.25:
          dps.insert(rng.randint(0, len(dps)), dps[0])      # the very same datapoint twice in one frame: delivered twice
        # every fourth pickle frame is what a Python 2 sender writes (names as byte strings)
        fr = wiresys.py2_pickle_frame(dps) if len(out) % 4 == 1 else wiresys.pickle_frame(dps, rng.randint(0, 5))
        if len(fr) - 4 > wiresys.PICKLE_MAX:
          dps = dps[:1]
          fr = wiresys.pickle_frame(dps, 2)
          if len(fr) - 4 > wiresys.PICKLE_MAX:
            continue
        frames.append(dict(bytes=fr, kind='good', dps=dps))
      else:
        dp = wiresys.gen_datapoint(rng)
        frames.append(dict(bytes=wiresys.line_of(dp, rng), kind='good', dps=[dp]))
        if rng.random() < 0.2:
          # clients end with or interleave blank lines: they carry nothing and harm nothing
          frames.append(dict(bytes=rng.choice([b'\n', b'  \n', b'\r\n', b'\t \n']), kind='good', dps=[], what='blank line'))
    if frames:
      out.append((proto, frames))
  return out


def run_streams(ctx, wm, streams, budget, rng, with_res=False, with_pause=False):
  traces, origins = [], []
  for si, (proto, frames) in enumerate(streams):
    res = (0, 0, 10, 0, 1)[si % 5] if with_res else 0
    n = sum(len(f['bytes']) for f in frames)
    if proto == 'udp':
      # datagram boundaries fall on line boundaries; batching of lines into datagrams is the choice
      ends = []
      acc = 0
      for f in frames:
        acc += len(f['bytes'])
        ends.append(acc)
      cutsets = [[], ends[:-1]] + [[e for e in ends[:-1] if rng.random() < 0.5] for _ in range(2)]
    else:
      cutsets = wiresys.all_cuts(n, rng, budget, wiresys.priority_cuts(frames))
    seen = set()
    for cuts in cutsets:
      if tuple(cuts) in seen:
        continue
      seen.add(tuple(cuts))
      ndp = sum(len(f['dps']) for f in frames)
      pause_at = (len(traces) % ndp) + 1 if (with_pause and proto != 'udp' and ndp and len(traces) % 3 == 0) else 0
      idle = 8 if (with_pause and len(traces) % 4 == 1) else None
      failing = bool(with_res and len(traces) % 7 == 3)
      traces.append(wiresys.execute(wm, proto, frames, cuts, None, res=res, pause_at=pause_at, idle=idle, failing=failing))
      origins.append(dict(proto=proto, cuts=cuts, MIN_TIMESTAMP_RESOLUTION=res, pause_during_datapoint=pause_at, METRIC_CLIENT_IDLE_TIMEOUT=idle, another_subscriber_fails=failing, frames=[dict(kind=f['kind'], what=f.get('what', ''), hex=f['bytes'].hex()) for f in frames]))
      ctx.evaluations += 1
  return traces, origins


def report(ctx, traces, origins, verdicts, prop, known_map=None):
  for i, tr in enumerate(traces):
    ctx.traces += 1
    if len(tr['segs']) >= 2:
      ctx.nontriv(i)
    for f in sorted(verdicts[i] & prop):
      bad_kinds = sorted(set(fr['what'] for fr in tr['frames'] if fr['kind'] == 'bad'))
      sig = f
      if known_map:
        sig = known_map(f, tr)
      ctx.violation(WHAT[f] + (' [malformed kinds in the stream: %s]' % bad_kinds if bad_kinds else ''),
                    dict(origin=origins[i], segs=tr['segs'], frames=tr['frames'], flags=sorted(verdicts[i])), signature=sig)


def run(ctx):
  ctx.rule = ('streams of 1-3 frames (lines / pickle frames of 1-3 datapoints / datagrams) x every single cut position, all '
              '1-byte segments and random multi-cuts; non-trivial = execution with at least two segments')
  ctx.value_oracles.append('delivered floats are compared bit-for-bit (struct.pack(">d")) with the generator\'s values')
  ctx.assumptions += ['protobuf listener excluded (google.protobuf not installed)', 'well-formed = what a client encoding with repr()/pickle sends']
  model(ctx)
  wm = wiresys.WireModules(ctx.scratch)
  streams = good_streams(ctx, ctx.rng, ctx.pick(24, 300))
  traces, origins = run_streams(ctx, wm, streams, ctx.pick(90, 400), ctx.rng, with_pause=True)
  verdicts = wiresys.judge(ctx, traces, 'C01 traces')
  report(ctx, traces, origins, verdicts, PROP)
  # negative control
  import copy
  k = next(i for i, t in enumerate(traces) if any(s['delivered'] for s in t['segs']))
  bad = copy.deepcopy(traces[k])
  for s in bad['segs']:
    if s['delivered']:
      s['delivered'] = s['delivered'][1:]
      break
  v = wiresys.judge(ctx, [bad], 'negative control')
  ctx.negative_control('one delivered datapoint removed from the record', bool(v[0] & {'lost-or-late', 'wrong-datapoints', 'reordered'}))
  ctx.sample(dict(kind='segmented stream', origin=origins[k], segs=traces[k]['segs'][:8]))
  listen_section(ctx)


def listen_section(ctx):
  """a client can only deliver datapoints if the listener lets it connect: admission under MAX_RECEIVER_CONNECTIONS
  (Listen.tla); a port that stays paused below the limit is reported here"""
  from . import listensys
  listensys.section(ctx, violate=True)


def replay(ctx, rp):
  wm = wiresys.WireModules(ctx.scratch)
  org = rp['replay']['origin']
  frames = [dict(bytes=bytes.fromhex(f['hex']), kind=f['kind'], what=f['what'], dps=[]) for f in org['frames']]
  raise NotImplementedError('replay needs the datapoints: rerun ./check with the same VERIF_SEED')
