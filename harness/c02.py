"""C02 - the cache neither loses nor duplicates datapoints; last write wins; size exact.

A. TLC: Cache.tla (implementation-shaped, two threads, six strategies) - Conservation,
   LastWriteWins, BatchNoDupTs, SizeExact in every reachable state.
B. spec->code: TLC -simulate behaviours replayed on the real _MetricCache at the model's
   atomicity, projection compared after every action (drift), traces judged (C).
C. code->spec: line-level schedule exploration (pre-emption bounded exhaustive + random) of
   store / drain / cache-query workloads; every recorded execution must have a linearization
   in CacheLin.tla that explains every batch, query result and size observation.
"""
from . import cachesys, cachecheck


def run(ctx):
  ctx.rule = ('workloads of 4-5 stores (2 metrics x 2 timestamps, duplicate timestamps, re-stores after a drain), '
              '2-3 drains and a cache query; schedules: all with <= k pre-emptions at source-line granularity, then '
              'random; distinct = distinct recorded event sequences; non-trivial = an operation of the other thread '
              'was in flight during a store or drain')
  ctx.assumptions += ['line granularity (not the C level of dict/deque operations, atomic under the GIL)',
                      'cache queries run on the reactor thread like stores (they do in carbon)']
  models, sims, expl = [], [], []
  for st in cachesys.STRATEGIES:
    lag = 0
    models.append(('Cache[%s]' % st, cachesys.model_constants(st, stores=ctx.pick(4, 5), drains=3, metrics=2, tss=2),
                   cachecheck.INV_C02, [], 'Spec'))
    sims.append((st, 0, lag, ctx.pick(40, 400), 18))
    for w in range(ctx.pick(2, 6)):
      r_ops, w_ops = cachesys.gen_workload(ctx.rng, nmetrics=2, nts=2, nstores=ctx.pick(4, 5), ndrains=2,
                                           nqueries=1, ticks=(st == 'timesorted'))
      # bounded and unbounded cache (a full cache must still take updates of cached timestamps)
      cfg = dict(strategy=st, max=(None if w % 2 == 0 else 2), flow=False, lag=0, frac=(w % 3 != 2))   # mostly fractional float timestamps
      expl.append((cfg, r_ops, w_ops, ctx.pick(1, 2), ctx.pick(40, 200), ctx.pick(150, 1500)))
  # flow control: between MAX_CACHE_SIZE (soft, 'nearly full') and 1.05 * MAX_CACHE_SIZE (hard) datapoints are still
  # accepted - the band only exists for MAX_CACHE_SIZE >= 20
  for k, st in enumerate(cachesys.STRATEGIES if not ctx.quick else cachesys.STRATEGIES[(ctx.seed + 1) % 2::2]):
    r_ops, w_ops = cachesys.band_workload(ctx.rng)
    expl.append((dict(strategy=st, max=20, flow=True, lag=0, coarse=True), r_ops, w_ops, 0, ctx.pick(3, 12), 2))
  cachecheck.run_plan(ctx, 'C02', models, sims, expl)


def replay(ctx, rp):
  cachecheck.replay(ctx, rp, 'C02')
