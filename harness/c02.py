"""C02 - the cache neither loses nor duplicates datapoints; last write wins; size exact.

A. TLC: Cache.tla (implementation-shaped, two threads, six strategies) - Conservation,
   LastWriteWins, BatchNoDupTs, SizeExact in every reachable state.
B. spec->code: TLC -simulate behaviours replayed on the real _MetricCache at the model's
   atomicity, projection compared after every action (drift), traces judged (C).
C. code->spec: line-level schedule exploration (pre-emption bounded exhaustive + random) of
   store / drain / cache-query workloads; every recorded execution must have a linearization
   in CacheLin.tla that explains every batch, query result and size observation.
"""
from . import cachesys, cachecheck


def run(ctx):
  ctx.rule = ('workloads of 4-5 stores (2 metrics x 2 timestamps, duplicate timestamps, re-stores after a drain), '
              '2-3 drains and a cache query; schedules: all with <= k pre-emptions at source-line granularity, then '
              'random; distinct = distinct recorded event sequences; non-trivial = an operation of the other thread '
              'was in flight during a store or drain')
  ctx.assumptions += ['line granularity (not the C level of dict/deque operations, atomic under the GIL)',
                      'cache queries run on the reactor thread like stores (they do in carbon)']
  models, sims, expl = [], [], []
  for st in cachesys.STRATEGIES:
    lag = 0
    models.append(('Cache[%s]' % st, cachesys.model_constants(st, stores=ctx.pick(4, 5), drains=3, metrics=2, tss=2),
                   cachecheck.INV_C02, [], 'Spec'))
    sims.append((st, 0, lag, ctx.pick(40, 400), 18))
    for w in range(ctx.pick(2, 6)):
      r_ops, w_ops = cachesys.gen_workload(ctx.rng, nmetrics=2, nts=2, nstores=ctx.pick(4, 5), ndrains=2,
                                           nqueries=1, ticks=(st == 'timesorted'))
      # bounded and unbounded cache (a full cache must still take updates of cached timestamps)
      cfg = dict(strategy=st, max=(None if w % 2 == 0 else 2), flow=False, lag=0, frac=(w % 3 != 2))   # mostly fractional float timestamps
      expl.append((cfg, r_ops, w_ops, ctx.pick(1, 2), ctx.pick(40, 200), ctx.pick(150, 1500)))
  # flow control: between MAX_CACHE_SIZE (soft, 'nearly full') and 1.05 * MAX_CACHE_SIZE (hard) datapoints are still
  # accepted - the band only exists for MAX_CACHE_SIZE >= 20
  for k, st in enumerate(cachesys.STRATEGIES if not ctx.quick else cachesys.STRATEGIES[(ctx.seed + 1) % 2::2]):
    r_ops, w_ops = cachesys.band_workload(ctx.rng)
    expl.append((dict(strategy=st, max=20, flow=True, lag=0, coarse=True), r_ops, w_ops, 0, ctx.pick(3, 12), 2))
  cachecheck.run_plan(ctx, 'C02', models, sims, expl)
  same_series_two_syntaxes(ctx)
  listener_to_cache(ctx)


def same_series_two_syntaxes(ctx):
  """the datapoints of ONE series arrive under different spellings of its name (tag order, carbon / OpenMetrics syntax)
  through the real CacheFeedingProcessor: one cache entry, last value per timestamp wins, size = datapoints held"""
  from . import cachesys
  mods = cachesys.Modules(ctx.scratch)
  s = mods.settings
  s['MAX_CACHE_SIZE'] = float('inf')
  s['CACHE_SIZE_HARD_MAX'] = float('inf')
  s['CACHE_SIZE_LOW_WATERMARK'] = float('inf')
  s['CACHE_WRITE_STRATEGY'] = 'sorted'
  rng = ctx.rng
  for k in range(ctx.pick(20, 200)):
    tags = [(t, rng.choice(['1', 'x', 'a=b'])) for t in rng.sample(['dc', 'host', 'az', 'k'], rng.randint(1, 3))]
    base = rng.choice(['cpu.load', 'm', 'a.b.c'])
    spellings = []
    for _ in range(rng.randint(2, 4)):
      tg = list(tags)
      rng.shuffle(tg)
      if rng.random() < 0.5:
        spellings.append(base + ''.join(';%s=%s' % kv for kv in tg))
      else:
        spellings.append(base + '{' + ','.join('%s="%s"' % kv for kv in tg) + '}')
    mods.cache._Cache = None
    proc = mods.cache.CacheFeedingProcessor()
    cache = mods.cache.MetricCache()
    expect = {}
    vid = 0
    for sp in spellings:
      for ts in rng.sample([1, 2, 3], rng.randint(1, 2)):
        vid += 1
        list(proc.process(sp, (float(ts), float(vid))))
        expect[float(ts)] = float(vid)
    ctx.evaluations += 1
    ctx.traces += 1
    held = {m: dict(d) for m, d in cache.items()}
    ok = len(held) == 1 and list(held.values())[0] == expect and cache.size == len(expect)
    mods.cache._Cache = None
    if not ok:
      ctx.violation('the datapoints of one tagged series, sent under different spellings of its name, are not one cache entry holding the last '
                    'value per timestamp with an exact size: %r (size %r), expected one entry %r' % (held, cache.size, expect),
                    dict(spellings=spellings, cache=repr(held), size=cache.size, expected=repr(expect)), signature='series-split')
      break


def listener_to_cache(ctx):
  """datapoints on their way from a real listener into the real cache (pipeline ['write']): what the cache hands out per
  series is strictly increasing in timestamp - lines with NaN / infinite timestamps never get that far"""
  from twisted.internet.testing import StringTransport
  from . import cachesys
  mods = cachesys.Modules(ctx.scratch)
  import carbon.protocols as protocols
  s = mods.settings
  s['MAX_CACHE_SIZE'] = float('inf')
  s['CACHE_SIZE_HARD_MAX'] = float('inf')
  s['CACHE_SIZE_LOW_WATERMARK'] = float('inf')
  s['USE_FLOW_CONTROL'] = False
  s['USE_WHITELIST'] = False
  s['MIN_TIMESTAMP_RESOLUTION'] = 0
  s['METRIC_CLIENT_IDLE_TIMEOUT'] = None
  s['TCP_KEEPALIVE'] = False
  s['MAX_RECEIVER_CONNECTIONS'] = float('inf')
  rng = ctx.rng
  base = list(mods.events.metricReceived.handlers)
  try:
    for st in cachesys.STRATEGIES[:ctx.pick(3, 6)]:
      s['CACHE_WRITE_STRATEGY'] = st
      mods.cache._Cache = None
      proc = mods.cache.CacheFeedingProcessor()
      cache = mods.cache.MetricCache()
      mods.events.metricReceived.handlers[:] = base + [lambda m, dp: list(proc.process(m, dp))]
      r = protocols.MetricLineReceiver()
      r.makeConnection(StringTransport())
      lines = []
      good = {}
      for k in range(12):
        ts = rng.choice(['nan', 'inf', '-inf', 'NaN']) if k % 3 == 1 else str(rng.randint(1, 8))
        lines.append('lc.m %d %s\n' % (k, ts))
        if k % 3 != 1:
          good[float(ts)] = float(k)
      r.dataReceived(''.join(lines).encode('ascii'))
      mods.state.connectedMetricReceiverProtocols.discard(r)
      ctx.evaluations += 1
      ctx.traces += 1
      metric, pts = cache.drain_metric()
      tss = [a for a, b in pts]
      ok = metric == 'lc.m' and all(x == x and x not in (float('inf'), float('-inf')) for x in tss) and all(x < y for x, y in zip(tss, tss[1:])) \
        and dict(pts) == good and cache.size == 0
      if not ok:
        ctx.violation('datapoints sent to the line listener of a cache daemon (some lines carry NaN / infinite timestamps) are not handed out as '
                      'one batch strictly increasing in timestamp holding the last value per timestamp: %r (size afterwards %r), expected %r'
                      % (pts, cache.size, sorted(good.items())), dict(strategy=st, lines=lines, drained=repr(pts)), signature='listener-to-cache')
        break
  finally:
    mods.events.metricReceived.handlers[:] = base
    mods.cache._Cache = None


def replay(ctx, rp):
  cachecheck.replay(ctx, rp, 'C02')
