"""The limits a daemon derives from its configuration file at start-up (carbon.conf.CarbonCacheOptions.postOptions),
computed by the real code in a child process (it rewrites the global settings object) from a carbon.conf in scratch."""
import json
import os
import subprocess
import sys

from . import env
from .core import Machinery

CHILD = r'''
import sys, os, json
sys.modules['carbon.amqp_listener'] = None
conf_dir, conf_file = sys.argv[1], sys.argv[2]
os.environ['GRAPHITE_ROOT'] = conf_dir
os.environ['GRAPHITE_CONF_DIR'] = conf_dir
os.environ['GRAPHITE_STORAGE_DIR'] = os.path.join(conf_dir, 'storage')
from carbon import conf
class Parent(dict):
  subCommand = 'carbon-cache'
p = Parent(pidfile='twistd.pid', umask=None, nodaemon=True, syslog=None)
o = conf.CarbonCacheOptions()
o.parent = p
o['config'] = conf_file
o['instance'] = 'a'
o['debug'] = True
o['action'] = 'start'
try:
  o.postOptions()
except SystemExit as e:
  print(json.dumps(dict(error='SystemExit %r' % (e.code,))))
  sys.exit(0)
s = conf.settings
def num(x):
  return 'inf' if x == float('inf') else x
print(json.dumps(dict(MAX_CACHE_SIZE=num(s.MAX_CACHE_SIZE), CACHE_SIZE_HARD_MAX=num(s.CACHE_SIZE_HARD_MAX),
                      CACHE_SIZE_LOW_WATERMARK=num(s.CACHE_SIZE_LOW_WATERMARK), USE_FLOW_CONTROL=bool(s.USE_FLOW_CONTROL),
                      USE_INSECURE_UNPICKLER=bool(s.USE_INSECURE_UNPICKLER), CACHE_WRITE_STRATEGY=s.CACHE_WRITE_STRATEGY,
                      MAX_CREATES_PER_MINUTE=num(s.MAX_CREATES_PER_MINUTE), MAX_UPDATES_PER_SECOND=num(s.MAX_UPDATES_PER_SECOND))))
'''


def derive(scratch, lines):
  """lines: the [cache] section of a carbon.conf; returns the settings the daemon ends up with"""
  d = os.path.join(scratch, 'confsys')
  os.makedirs(os.path.join(d, 'storage'), exist_ok=True)
  with open(os.path.join(d, 'storage-schemas.conf'), 'w') as fh:
    fh.write('[default]\npattern = .*\nretentions = 60:10\n')
  cf = os.path.join(d, 'carbon.conf')
  with open(cf, 'w') as fh:
    fh.write('[cache]\nDATABASE = whisper\nLOCAL_DATA_DIR = %s\n' % os.path.join(d, 'storage', 'whisper'))
    for l in lines:
      fh.write(l + '\n')
  repo = os.environ.get('VERIF_REPO', '/repo')
  envv = dict(os.environ)
  envv['PYTHONPATH'] = os.pathsep.join([os.path.join(repo, 'lib'), os.path.join(os.path.dirname(os.path.dirname(os.path.abspath(__file__))), 'stubs')])
  r = subprocess.run([sys.executable, '-c', CHILD, d, cf], capture_output=True, text=True, timeout=120, env=envv, cwd=d)
  out = [l for l in r.stdout.splitlines() if l.startswith('{')]
  if not out:
    raise Machinery('confsys child gave no result: %s %s' % (r.stdout[-500:], r.stderr[-1500:]))
  return json.loads(out[-1])
