"""Daemon start-up as carbon really does it, in a child process (it rewrites global settings and module state):
the program's twistd Options.postOptions() on a carbon.conf in scratch, then carbon.service.create<Daemon>Service()
with only the listeners left out.  The child reports the settings the daemon ends up with and how it is wired
(pipelines, list files, rate-limit buckets, send-queue limits, data directory, destinations).  Boot.tla judges."""
import json
import os
import subprocess
import sys

from . import tlc
from .core import Machinery

CHILD = r'''
import sys, os, json
sys.modules['carbon.amqp_listener'] = None
conf_dir, conf_file, program, instance, make_service = sys.argv[1], sys.argv[2], sys.argv[3], sys.argv[4], sys.argv[5] == '1'
os.environ['GRAPHITE_ROOT'] = conf_dir
os.environ['GRAPHITE_CONF_DIR'] = conf_dir
os.environ['GRAPHITE_STORAGE_DIR'] = os.path.join(conf_dir, 'storage')
os.environ['HOME'] = os.path.join(conf_dir, 'home')
out = {}
try:
  from carbon import conf, state
  class Parent(dict):
    subCommand = program
  p = Parent(pidfile='twistd.pid', umask=None, nodaemon=True, syslog=None)
  cls = {'carbon-cache': conf.CarbonCacheOptions, 'carbon-aggregator': conf.CarbonAggregatorOptions,
         'carbon-aggregator-cache': conf.CarbonAggregatorOptions, 'carbon-relay': conf.CarbonRelayOptions}[program]
  o = cls()
  o.parent = p
  o['config'] = conf_file
  o['instance'] = instance or None
  o['debug'] = True
  o['action'] = 'start'
  try:
    o.postOptions()
  except SystemExit as e:
    print(json.dumps(dict(error='SystemExit %r' % (e.code,))))
    sys.exit(0)
  s = conf.settings
  def num(x):
    if isinstance(x, float) and x in (float('inf'), float('-inf')):
      return 'inf'
    return x
  keys = ['MAX_CACHE_SIZE', 'CACHE_SIZE_HARD_MAX', 'CACHE_SIZE_LOW_WATERMARK', 'USE_FLOW_CONTROL', 'USE_INSECURE_UNPICKLER',
          'CACHE_WRITE_STRATEGY', 'MAX_CREATES_PER_MINUTE', 'MAX_UPDATES_PER_SECOND', 'MAX_UPDATES_PER_SECOND_ON_SHUTDOWN',
          'MIN_TIMESTAMP_RESOLUTION', 'MIN_TIMESTAMP_LAG', 'FORWARD_ALL', 'DESTINATIONS', 'REPLICATION_FACTOR', 'DIVERSE_REPLICAS',
          'MAX_QUEUE_SIZE', 'QUEUE_LOW_WATERMARK_PCT', 'MAX_QUEUE_SIZE_HARD_PCT', 'USE_WHITELIST', 'LOCAL_DATA_DIR', 'TAG_RELAY_NORMALIZED',
          'MAX_DATAPOINTS_PER_MESSAGE', 'PICKLE_RECEIVER_MAX_LENGTH', 'RELAY_METHOD', 'MAX_AGGREGATION_INTERVALS', 'DYNAMIC_ROUTER',
          'MAX_RECEIVER_CONNECTIONS', 'TAG_QUEUE_SIZE', 'ENABLE_TAGS']
  out['settings'] = {}
  for k in keys:
    try:
      out['settings'][k] = num(getattr(s, k))        # the way carbon reads them (attributes assigned at start-up shadow items)
    except Exception:
      try:
        out['settings'][k] = num(s[k])
      except Exception:
        out['settings'][k] = 'MISSING'
  out['data_dir'] = getattr(state.database, 'data_dir', None) if state.database is not None else None
  if make_service:
    from carbon import service, events
    import carbon.protocols
    service.setupReceivers = lambda *a, **k: None
    fn = {'carbon-cache': service.createCacheService, 'carbon-aggregator': service.createAggregatorService,
          'carbon-aggregator-cache': service.createAggregatorCacheService, 'carbon-relay': service.createRelayService}[program]
    root = fn(o)
    out['pipeline'] = [type(x).plugin_name + (':' + getattr(x, 'ruleset', '') if hasattr(x, 'ruleset') else '') for x in state.pipeline_processors]
    out['generated'] = [type(x).plugin_name + (':' + getattr(x, 'ruleset', '') if hasattr(x, 'ruleset') else '') for x in state.pipeline_processors_generated]
    out['same_list'] = state.pipeline_processors is state.pipeline_processors_generated
    from carbon.regexlist import WhiteList, BlackList
    out['whitelist_file'] = WhiteList.list_file
    out['blacklist_file'] = BlackList.list_file
    out['whitelist_rules'] = len(WhiteList.regex_list)
    out['blacklist_rules'] = len(BlackList.regex_list)
    out['min_timestamp_resolution_after_service'] = num(s.MIN_TIMESTAMP_RESOLUTION)
    w = sys.modules.get('carbon.writer')
    if w is not None:
      out['create_bucket'] = None if w.CREATE_BUCKET is None else [num(w.CREATE_BUCKET.capacity), num(w.CREATE_BUCKET.fill_rate)]
      out['update_bucket'] = None if w.UPDATE_BUCKET is None else [num(w.UPDATE_BUCKET.capacity), num(w.UPDATE_BUCKET.fill_rate)]
      out['tag_queue_max'] = w.tagQueue.add_queue.maxsize
    c = sys.modules.get('carbon.client')
    if c is not None:
      out['send_queue_low'] = num(c.SEND_QUEUE_LOW_WATERMARK)
      out['send_queue_hard'] = num(c.SEND_QUEUE_HARD_MAX)
    if state.client_manager is not None:
      out['destinations'] = [list(map(str, d)) for d in state.client_manager.client_factories if d is not None]
      r = state.client_manager.router
      out['router'] = type(r).plugin_name
      out['router_rf'] = getattr(r, 'replication_factor', None)
      out['router_diverse'] = getattr(r, 'diverse_replicas', None)
    # flow-control wiring: what the full / space events are connected to
    out['cachefull_handlers'] = len(events.cacheFull.handlers)
    events.pauseReceivingMetrics.handlers[:] = [h for h in events.pauseReceivingMetrics.handlers]
    before = bool(state.metricReceiversPaused)
    events.cacheFull()
    out['cachefull_pauses_now'] = bool(state.metricReceiversPaused) and not before
    events.cacheSpaceAvailable()
    out['space_resumes_now'] = not bool(state.metricReceiversPaused)
except Exception as e:
  import traceback
  out['exception'] = '%s: %s' % (type(e).__name__, e)
  out['traceback'] = traceback.format_exc()[-1500:]
print(json.dumps(out, default=repr))
'''


def boot(scratch, program, sections, instance='', service=True, files=None, tag='boot'):
  """sections: {section name: [lines]}; files: {name: text} written next to carbon.conf.  Returns the child's report."""
  d = os.path.join(scratch, 'confsys-%s' % tag)
  os.makedirs(os.path.join(d, 'storage'), exist_ok=True)
  os.makedirs(os.path.join(d, 'home'), exist_ok=True)
  base = {'storage-schemas.conf': '[default]\npattern = .*\nretentions = 60:10\n', 'aggregation-rules.conf': '', 'rewrite-rules.conf': '',
          'relay-rules.conf': '[default]\ndefault = true\ndestinations = 127.0.0.1:2004:a\n'}
  base.update(files or {})
  for name, text in base.items():
    with open(os.path.join(d, name), 'w') as fh:
      fh.write(text)
  cf = os.path.join(d, 'carbon.conf')
  with open(cf, 'w') as fh:
    for sec, lines in sections.items():
      fh.write('[%s]\n' % sec)
      for l in lines:
        fh.write(l + '\n')
      fh.write('\n')
  repo = os.environ.get('VERIF_REPO', '/repo')
  envv = dict(os.environ)
  envv['PYTHONPATH'] = os.pathsep.join([os.path.join(repo, 'lib'), os.path.join(os.path.dirname(os.path.dirname(os.path.abspath(__file__))), 'stubs')])
  r = subprocess.run([sys.executable, '-c', CHILD, d, cf, program, instance, '1' if service else '0'], capture_output=True, text=True,
                     timeout=120, env=envv, cwd=d)
  out = [l for l in r.stdout.splitlines() if l.startswith('{')]
  if not out:
    raise Machinery('confsys child gave no result: %s %s' % (r.stdout[-500:], r.stderr[-1500:]))
  rep = json.loads(out[-1])
  rep['dir'] = d
  return rep


def derive(scratch, lines):
  """settings carbon-cache ends up with for a [cache] section (kept for the limit check of C10)"""
  rep = boot(scratch, 'carbon-cache', {'cache': ['DATABASE = whisper'] + list(lines)}, service=False, tag='derive')
  if 'exception' in rep:
    return dict(error=rep['exception'])
  if 'error' in rep:
    return rep
  return rep['settings']
