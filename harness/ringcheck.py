"""Shared driver for the hash-routing checks (C05, C06)."""
import copy

from . import ringsys, tlc
from .core import Machinery

C05_FLAGS = {'dup', 'notlive', 'count', 'diverse', 'route', 'arcconst', 'nondeterministic', 'raised'}
C06_FLAGS = {'ring', 'route', 'history', 'history:collision', 'freshring', 'keyhash', 'arcconst', 'raised'}
WHAT = {
  'raised': 'routing a key raised an exception instead of returning destinations',
  'dup': 'a destination is returned twice for one key',
  'notlive': 'a destination that is not configured is returned',
  'count': 'the number of destinations is not min(REPLICATION_FACTOR, eligible destinations)',
  'diverse': 'two destinations of one key share a server although DIVERSE_REPLICAS is on',
  'route': 'the preference order / destinations differ from the ring algorithm applied to the reference positions',
  'arcconst': 'routing changes between two ring positions that are not separated by a ring entry',
  'nondeterministic': 'the same key was routed differently on a second call',
  'ring': 'the ring entries differ from add/bump/insort/remove applied to the reference hash positions',
  'history': 'after destinations left and rejoined, routing differs from a freshly built ring with the same live destinations',
  'history:collision': 'after destinations left and rejoined, routing differs from a freshly built ring where replica positions collide (the +1 collision bump depends on insertion order)',
  'freshring': 'a freshly built ring differs from the reference construction',
  'keyhash': 'carbonHash(metric) differs from the independent md5-prefix / folded FNV-1a',
}


def model_runs(ctx, pid):
  """Exhaustive TLC runs over every hash table of a small ring."""
  runs = []
  base = dict(NNodes=3, Replicas=2, RingSize=ctx.pick(3, 4), MaxOps=ctx.pick(3, 4), SingleNodeReturns='TRUE')
  if pid == 'C05':
    for rf, div in ((1, 'FALSE'), (2, 'FALSE'), (2, 'TRUE'), (3, 'TRUE')):
      runs.append((dict(base, RF=rf, Diverse=div), ['TypeOK', 'WellFormed', 'FullList'], []))
  else:
    runs.append((dict(base, RF=1, Diverse='FALSE'), ['TypeOK', 'HistoryFreeModuloCollisions'], ['Stable']))
  out = []
  for consts, invs, props in runs:
    mc, files, sub = tlc.mc_wrap('Ring', dict(ServerOf='<<1,1,2>>'))
    c = dict(consts)
    c.update(sub)
    cfg = tlc.cfg_text(spec='Spec', constants=c, invariants=invs, properties=props)
    res = tlc.check_ok(tlc.run(mc, cfg, ctx.scratch, coverage=True, files=files, timeout=1500), 'Ring model')
    ctx.add_tlc('Ring[RF=%s,diverse=%s]' % (consts['RF'], consts['Diverse']), res, must_cover=None if res.violated else ['Add', 'Remove'])
    if res.violated:
      raise Machinery('Ring.tla violates %s: %s' % (res.violated, res.cex[-1:]))
  return out


def scenarios(ctx, rm, pid):
  rng = ctx.rng
  traces = []
  # controlled hash tables: tiny ring, collisions everywhere
  for _ in range(ctx.pick(60, 600)):
    nn = rng.randint(1, 5)
    nodes = ringsys.make_nodes(rng, nn)
    replicas = rng.choice([2, 2, 3, 4])
    rs = rng.choice([3, 5, 8, 16])
    table = [[rng.randrange(rs) for _ in range(replicas)] for _ in range(nn)]
    ops = ringsys.gen_ops(rng, nn, rng.randint(0, ctx.pick(4, 6)))
    traces.append(ringsys.scenario(rm, rng, nodes, ops, rf=rng.randint(1, 4), diverse=rng.random() < 0.5,
                                   replicas=replicas, hash_type='carbon_ch', table=table, ring_size=rs))
  # real hashes, every ring position
  for k in range(ctx.pick(10, 120)):
    nn = rng.randint(1, 8)
    nodes = ringsys.make_nodes(rng, nn)
    if k % 5 == 4:       # instance names repeat: fnv1a_ch replica keys collide by construction
      nodes = [(n[0] + str(i), n[1], 'a') for i, n in enumerate(nodes)]
    ht = 'fnv1a_ch' if k % 2 else 'carbon_ch'
    replicas = 100 if k % 5 == 0 else rng.choice([5, 10, 20])
    ops = ringsys.gen_ops(rng, nn, rng.randint(0, ctx.pick(3, 6)) if replicas < 100 else rng.randint(0, 2))
    traces.append(ringsys.scenario(rm, rng, nodes, ops, rf=rng.randint(1, 4), diverse=rng.random() < 0.5,
                                   replicas=replicas, hash_type=ht, sweep_all=True))
  for _ in range(ctx.pick(40, 300)):
    nn = rng.randint(1, 6)
    nodes = ringsys.make_nodes(rng, nn)
    ops = ringsys.gen_ops(rng, nn, rng.randint(0, 4))
    traces.append(ringsys.fast_scenario(rm, rng, nodes, ops, rf=rng.randint(1, 4), diverse=rng.random() < 0.5))
  return traces


def report(ctx, traces, verdicts, vflags, known=()):
  for i, tr in enumerate(traces):
    ctx.traces += 1
    ctx.evaluations += sum(len(st['routes']) for st in tr['steps'])
    nadd = sum(1 for o in tr['ops'] if o[0] == 'add')
    if len(tr['ops']) > nadd or len(set(tuple(x) for x in tr['refpos'])) < len(tr['refpos']) or tr['kind'] == 'ring':
      ctx.nontriv(i)
    for f in sorted(verdicts[i] & vflags):
      ctx.violation(WHAT[f], dict(scenario={k: v for k, v in tr.items() if k != 'steps'}, flags=sorted(verdicts[i]),
                                  last_step=tr['steps'][-1] if tr['steps'] else None), signature=f)


def negative_controls(ctx, traces, verdicts):
  cand = [i for i, t in enumerate(traces) if t['kind'] == 'ring' and t['steps'] and len(t['steps'][-1]['routes']) > 1
          and not (verdicts[i] - {'history:collision'})]
  if not cand:
    ctx.neg_controls.append(dict(name='skipped: no scenario without flags to corrupt', rejected=True))
    return
  i = cand[0]
  a = copy.deepcopy(traces[i])
  r = a['steps'][-1]['routes'][0]
  if len(r[2]) >= 1:
    r[2] = r[2] + [r[2][0]]           # a duplicated destination
  b = copy.deepcopy(traces[i])
  b['steps'][-1]['ring'][0][0] += 1   # one ring entry displaced
  v = ringsys.judge(ctx, [a, b], 'negative controls')
  ctx.negative_control('duplicate destination injected into an observation', bool(v[0] & {'dup', 'route', 'count'}))
  ctx.negative_control('ring entry displaced by one', 'ring' in v[1])


def manager_routes(ctx):
  """the routes the relay APPLIES (CarbonClientManager on top of the router) while destinations come and go under the
  dynamic router: nothing is routed to a destination that is not configured, nothing goes nowhere while one is
  (clause `misrouted` of Relay_Trace.tla; the ring itself is judged above)"""
  from . import relaysys, relaycheck
  rm = relaysys.RelayModules(ctx.scratch)
  for ci, cfg in enumerate([dict(nd=3, maxq=8, mpm=2, flow=True, dynamic=True, max_retries=1, nr=1, rf=2),
                            dict(nd=2, maxq=8, mpm=3, flow=False, dynamic=True, max_retries=1, nr=1)][:ctx.pick(1, 2)]):
    consts, traces, origins = relaycheck.run_traces(ctx, rm, cfg, nsim=ctx.pick(5, 40), nrandom=ctx.pick(40, 300), nevents=ctx.pick(40, 80),
                                                    seed_base=ctx.seed + 300 + ci)
    verdicts = relaycheck.judge(ctx, consts, traces, 'manager routes cfg %d' % ci)
    relaycheck.report(ctx, traces, origins, verdicts, {'misrouted'})
