"""C20 - update and create rate limits hold over every time window.

A. TLC checks TokenBucket.tla exhaustively (CapInv, Window, WindowAll, WaitBound, NoFreeLunch).
B. spec->code: TLC -simulate behaviours are replayed on the real carbon.util.TokenBucket
   under a virtual clock; tokens/timestamp/decision/wait compared after every call.
C. code->spec: long random histories on the real class (capacities 1..1000, rates 1/60..1000
   per second, zero and huge clock steps, limit changes) and writer-level runs with both
   buckets enabled are recorded and judged by TokenBucket_Trace (every pair of grants).
"""
import math
import threading

from . import tlc, env
from .core import Machinery

_LOCK = threading.Lock()
PROP_FLAGS = {'window', 'windowall', 'waitlong'}
DRIFT_FLAGS = {'decision', 'waitshort', 'state', 'clock'}

INVS = ['CapInv', 'Window', 'WindowAll', 'WaitBound', 'NoFreeLunch', 'TypeOK']


def model_configs(ctx):
  base = [
    dict(RD=2, Caps='{1,3}', Rates='{1,4}', Steps='{1,3}', InitCap=2, InitRate=1, MaxOps=5, MaxNow=8),
    dict(RD=4, Caps='{1,2}', Rates='{1,3}', Steps='{0,2,7}', InitCap=1, InitRate=3, MaxOps=5, MaxNow=9),
  ]
  if not ctx.quick:
    base += [
      dict(RD=3, Caps='{1,2,4}', Rates='{1,2,5}', Steps='{1,2,9}', InitCap=3, InitRate=2, MaxOps=6, MaxNow=10),
      dict(RD=1, Caps='{1,2,3}', Rates='{1,2}', Steps='{0,1,4}', InitCap=1, InitRate=1, MaxOps=7, MaxNow=8),
    ]
  return base


class Recorder(object):
  """Drives a real TokenBucket on a virtual tick clock and records trace events."""
  def __init__(self, util, cap, rate_per_tick_num, RD, tick):
    self.util = util
    self.RD = RD
    self.tick = tick
    self.clock = env.VClock(0.0, tick=tick)
    util.time = self.clock.time
    util.sleep = self.clock.sleep
    self.bucket = util.TokenBucket(cap, rate_per_tick_num / (RD * tick))
    self.cap = cap
    self.rn = rate_per_tick_num
    self.ev = []

  def ticks(self):
    return int(round(self.clock.now / self.tick))

  def _tok(self):
    t = self.bucket._tokens * self.RD
    if t != t or abs(t) > 2 ** 30:
      return 2 ** 30 if t > 0 else -2 ** 30
    return int(round(t))

  def _st(self):
    return int(round(self.bucket.timestamp / self.tick))

  def advance(self, dticks):
    self.clock.now = (self.ticks() + dticks) * self.tick

  def peek(self):
    n = self.ticks()
    ok = self.bucket.peek(1)
    self.ev.append(dict(op='peek', now=n, ok=int(bool(ok)), wait=0, c=0, r=0, tok=self._tok(), st=self._st()))
    return ok

  def try_drain(self):
    n = self.ticks()
    ok = self.bucket.drain(1)
    self.ev.append(dict(op='try', now=n, ok=int(bool(ok)), wait=0, c=0, r=0, tok=self._tok(), st=self._st()))
    return ok

  def block_drain(self):
    n = self.ticks()
    ok = self.bucket.drain(1, blocking=True)
    w = self.ticks() - n
    self.ev.append(dict(op='block', now=n, ok=int(bool(ok)), wait=w, c=0, r=0, tok=self._tok(), st=self._st()))
    return w

  def set_limits(self, c, rnum):
    n = self.ticks()
    self.bucket.setCapacityAndFillRate(c, rnum / (self.RD * self.tick))
    self.ev.append(dict(op='set', now=n, ok=1, wait=0, c=c, r=rnum, tok=self._tok(), st=self._st()))

  def trace(self):
    return dict(cap=self.cap, rn=self.rn, ev=self.ev)


def replay_behaviour(util, beh, RD, drift):
  """Step the real class through one TLC behaviour; returns the observed trace."""
  init = beh[0][1]
  rec = Recorder(util, init['cap'], init['rn'], RD, 1.0)
  prev = init
  for act, st in beh[1:]:
    name = act.split('(')[0]
    if name.endswith('D'):
      name = name[:-1]
    if name == 'Advance':
      rec.advance(st['now'] - prev['now'])
    elif name == 'Peek':
      ok = rec.peek()
      if bool(ok) != st['last']['ok']:
        drift.append('peek decision differs from spec')
    elif name == 'TryDrain':
      ok = rec.try_drain()
      if bool(ok) != st['last']['ok']:
        drift.append('non-blocking decision differs from spec')
    elif name == 'BlockDrain':
      w = rec.block_drain()
      if w != st['last']['wait']:
        drift.append('blocking wait %s differs from spec %s' % (w, st['last']['wait']))
    elif name == 'SetLimits':
      rec.set_limits(st['cap'], st['rn'])
    else:
      raise Machinery('unknown action %r in simulated behaviour' % act)
    b = rec.bucket
    obs = (rec.ticks(), b._tokens * RD, b.timestamp, b.capacity, b.fill_rate * RD)
    exp = (st['now'], st['tok'], st['stamp'], st['cap'], st['rn'])
    if any(abs(o - e) > 1e-6 for o, e in zip(obs, exp)):
      drift.append('state after %s: observed %r, spec %r' % (name, obs, exp))
    prev = st
  return rec.trace()


def random_history(util, rng, nops):
  RD = 61440            # tick = 1/1024 s, rates are multiples of 1/60 per second
  tick = 1.0 / 1024
  cap = rng.choice([1, 1, 2, 3, 5, 10, 50, 100, 500, 1000])
  r60 = rng.choice([1, 2, 6, 30, 60, 90, 120, 600, 6000, 60000])   # rate * 60 per second
  rec = Recorder(util, cap, r60, RD, tick)
  burst = False
  for _ in range(nops):
    x = rng.random()
    if x < 0.30 and not burst:
      step = rng.choice([0, 0, 1, 2, 7, 64, 1024, 1024 * 3, 1024 * 60, 1024 * 600, 5 * 10 ** 6])
      rec.advance(step)
      burst = step >= 1024 * 60 and rng.random() < 0.7
    elif x < 0.62 or burst:
      rec.try_drain()
      if burst and rng.random() < 0.02:
        burst = False
    elif x < 0.85:
      rec.block_drain()
    elif x < 0.93:
      rec.peek()
    else:
      rec.set_limits(rng.choice([1, 2, 5, 10, 100, 1000]), rng.choice([1, 6, 60, 600, 6000, 60000]))
  return RD, rec.trace()


def judge(ctx, RD, traces, what):
  cfg = tlc.cfg_text(spec='TSpec', constants=dict(
    RD=RD, Caps='{}', Rates='{}', Steps='{}', InitCap=1, InitRate=1, MaxOps=0, MaxNow=0),
    constraints=['Report'])
  res, done, bad = tlc.validate_batch('TokenBucket_Trace', cfg, ctx.scratch, traces)
  tlc.check_ok(res, what)
  verdicts = {}
  for v in tlc.extract_prints(res.out, 'DONE'):
    verdicts[v[1]] = set(v[2])
  if len(verdicts) != len(traces):
    raise Machinery('%s: %d of %d traces judged\n%s' % (what, len(verdicts), len(traces), res.out[-2000:]))
  with _LOCK:
    ctx.states += res.distinct
    ctx.transitions += res.generated
  return verdicts


def handle_verdicts(ctx, verdicts, traces, origin):
  for tid, flags in verdicts.items():
    tr = traces[tid - 1]
    ctx.traces += 1
    grants = sum(1 for e in tr['ev'] if e['op'] == 'block' or (e['op'] == 'try' and e['ok']))
    if grants >= 2:
      ctx.nontriv((origin, tid, grants, len(tr['ev'])))
    pf = flags & PROP_FLAGS
    if pf:
      ctx.violation('%s: rate-limit property failed: %s' % (origin, sorted(pf)),
                    dict(origin=origin, trace=tr, flags=sorted(flags)), signature='c20:' + ','.join(sorted(pf)))
    df = flags & DRIFT_FLAGS
    if df:
      ctx.note_drift('%s trace %d deviates from TokenBucket.tla: %s' % (origin, tid, sorted(df)))


def writer_level(ctx):
  from . import writersys, writercheck, cachesys, sched
  wm = writersys.WriterModules(ctx.scratch)
  traces, origin = [], []
  for (creates, updates, shut) in ctx.pick([(6, 3, None), (120, 1, None), (6, 2, 4), (30, 1, 2)],
                                          [(6, 3, None), (120, 1, None), (60, 10, None), (12, 2, None), (600, 5, None), (6, 2, 4), (30, 1, 2), (60, 5, 50)]):
    wm.configure(creates, updates, shut)
    for st in ('sorted', 'max'):
      rng = ctx.rng
      nm = rng.randint(8, 14) if shut is None else rng.randint(22, 28)      # plenty of creates still pending when the stop arrives
      r_ops = []
      vid = 0
      for rep in range(2):
        for m in range(1, nm + 1):
          vid += 1
          r_ops.append(('store', 'm%d' % m, rep + 1, vid))
      cfg = dict(strategy=st, lag=0, buckets=wm.buckets, coarse=True)
      run = writersys.WriterRun(wm, cfg, r_ops, faults=set(), preexisting=('m1', 'm2'))
      # the storing thread first, then the writer until it is idle, then the stop
      try:
        # (with MAX_UPDATES_PER_SECOND_ON_SHUTDOWN the stop arrives while most of the work is still to do: the limits
        # change there - 'set' event - and hold from then on)
        tr, log = run.execute(sched.segment_chooser([('R', None), ('W', 4000 if shut is None else 60), ('S', None), ('W', None)]))
      except (sched.Blocked, sched.Deadlock, sched.StepLimit) as e:
        raise Machinery('writer-level run did not finish: %r' % e)
      ctx.evaluations += 1
      for op, cap, rn in (('create', creates, creates), ('write', updates, updates * 60)):
        times = [e['now'] for e in tr['ev'] if e['k'] == 'db' and e['op'] == op and e['ok']]
        if len(times) >= 2:
          evs = []
          for e in tr['ev']:        # in the order things happened (the virtual clock may not move between them)
            if e['k'] == 'db' and e['op'] == op and e['ok']:
              evs.append(dict(op='try', now=e['now'], ok=1, wait=0, c=0, r=0, tok=0, st=0))
            elif e['k'] == 'stopBefore' and shut is not None:
              evs.append(dict(op='set', now=e['now'], ok=1, wait=0, c=shut, r=shut * 60, tok=0, st=0))
          traces.append(dict(cap=cap, rn=rn, ev=evs))
          origin.append(dict(limit='MAX_CREATES_PER_MINUTE=%d' % creates if op == 'create' else 'MAX_UPDATES_PER_SECOND=%d' % updates,
                             strategy=st, calls=len(times), first_and_last_ticks=[times[0], times[-1]], MAX_UPDATES_PER_SECOND_ON_SHUTDOWN=shut))
  if not traces:
    raise Machinery('writer-level runs produced no rate-limited calls')
  verdicts = judge(ctx, 61440, traces, 'writer-level grants')
  for i, tr in enumerate(traces):
    ctx.traces += 1
    ctx.nontriv(('writer', i))
    pf = verdicts[i + 1] & {'window', 'windowall'}
    if pf:
      ctx.violation('writer level: the %s calls of writeCachedDataPoints() exceed the configured limit over some time window: %s'
                    % ('create' if 'CREATES' in origin[i]['limit'] else 'write', sorted(pf)),
                    dict(origin=origin[i], grant_times_in_1_1024_s=[e['now'] for e in tr['ev']][:60]), signature='c20:writer:' + ','.join(sorted(pf)))
  ctx.cov['writer_level_grant_sequences'] = len(traces)
  wm.configure(None, None, None)


def run(ctx):
  ctx.rule = ('TLC: TokenBucket.tla exhaustive for small caps/rates/steps; replays: TLC -simulate '
              'behaviours stepped through the real TokenBucket; traces: random histories (cap 1..1000, '
              'rate 1/60..1000 per s, zero/huge steps, limit changes) judged by TokenBucket_Trace on every '
              'pair of grants; non-trivial = trace with at least two grants')
  ctx.assumptions += [
    'sleep() is modelled as returning after the requested time rounded up to the clock tick',
    'float token arithmetic is compared with exact rationals; decisions may differ only when the exact count equals the cost',
  ]
  env.bootstrap(ctx.scratch)
  util = env.fresh('carbon.util')

  # A. exhaustive model checking
  for i, consts in enumerate(model_configs(ctx)):
    cfg = tlc.cfg_text(spec='Spec', constants=consts, invariants=INVS, constraints=['Bounded'])
    res = tlc.check_ok(tlc.run('TokenBucket', cfg, ctx.scratch, coverage=True), 'TokenBucket model %d' % i)
    if res.violated:
      raise Machinery('TokenBucket.tla violates %s in config %d: the model is wrong or the design is' % (res.violated, i))
    ctx.add_tlc('TokenBucket#%d' % i, res, must_cover=['Advance', 'PeekD', 'TryDrainD', 'BlockDrainD', 'SetLimits'])

  # B. spec -> code
  nsim = ctx.pick(300, 3000)
  sim_traces = []
  RDsim = 4
  consts = dict(RD=RDsim, Caps='{1,2,3,8}', Rates='{1,2,3,8}', Steps='{0,1,2,5,40}', InitCap=2, InitRate=1,
                MaxOps=12, MaxNow=400)
  cfg = tlc.cfg_text(spec='Spec', constants=consts, invariants=INVS)
  res, behs = tlc.simulate_behaviours('TokenBucket', cfg, ctx.scratch, num=nsim, depth=14, seed=ctx.seed + 1)
  tlc.check_ok(res, 'TokenBucket simulate')
  if len(behs) < nsim // 2:
    raise Machinery('simulation produced only %d behaviours' % len(behs))
  for beh in behs:
    drift = []
    tr = replay_behaviour(util, beh, RDsim, drift)
    sim_traces.append(tr)
    ctx.evaluations += 1
    for d in drift[:1]:
      ctx.note_drift('replay: ' + d)
  ctx.sample(dict(kind='replayed TLC behaviour', actions=[a for a, _ in behs[0]], observed=sim_traces[0]['ev'][:6]))
  handle_verdicts(ctx, judge(ctx, RDsim, sim_traces, 'replay traces'), sim_traces, 'replay')

  # C. code -> spec
  nhist = ctx.pick(200, 4000)
  nops = 200
  batch = []
  RD = None
  for i in range(nhist):
    RD, tr = random_history(util, ctx.rng, nops)
    batch.append(tr)
    ctx.evaluations += 1
  ctx.sample(dict(kind='random history (ticks of 1/1024 s, rate numerators over 61440)', cap=batch[0]['cap'],
                  rn=batch[0]['rn'], events=batch[0]['ev'][:8]))
  from concurrent.futures import ThreadPoolExecutor
  chunks = [batch[k:k + 125] for k in range(0, len(batch), 125)]
  with ThreadPoolExecutor(max_workers=12) as ex:       # one single-worker TLC per chunk, 12 at a time
    results = list(ex.map(lambda ch: judge(ctx, RD, ch, 'random histories'), chunks))
  for chunk, verdicts in zip(chunks, results):
    handle_verdicts(ctx, verdicts, chunk, 'history')

  # D. writer level: the real writeCachedDataPoints() with MAX_CREATES_PER_MINUTE and MAX_UPDATES_PER_SECOND set, on a
  # virtual clock against the in-memory database: the times of the create and write calls are the grants
  writer_level(ctx)

  # negative controls: a corrupted field must be flagged
  import copy
  bad = copy.deepcopy(batch[0])
  t_last = bad['ev'][-1]['now'] + bad['ev'][-1]['wait']
  nextra = 2 * max([bad['cap']] + [e['c'] for e in bad['ev']]) + 3
  for _ in range(nextra):   # a burst far above 2*burst in zero time
    bad['ev'].append(dict(op='try', now=t_last, ok=1, wait=0, c=0, r=0, tok=0, st=t_last))
  bad2 = copy.deepcopy(batch[1])
  shift = 0
  for e in bad2['ev']:
    e['now'] += shift
    if e['op'] == 'block' and not shift:
      e['wait'] += 50
      shift = 50
  if not shift:
    bad2['ev'].append(dict(op='block', now=bad2['ev'][-1]['now'] + bad2['ev'][-1]['wait'], ok=1, wait=10 ** 6, c=0, r=0, tok=0, st=0))
  v = judge(ctx, RD, [bad, bad2], 'negative control')
  ctx.negative_control('burst of grants appended to a recorded trace', bool(v[1] & {'window', 'windowall'}))
  ctx.negative_control('recorded wait lengthened', 'waitlong' in v[2] or 'state' in v[2])
  ctx.exhaustive = False
  ctx.value_oracles.append('float vs exact-rational token count at a threshold: tolerated only when exact tokens == cost (TokenBucket_Trace!EvFlags)')


def replay(ctx, rp):
  """Re-execute a recorded history on the current code and judge it again."""
  env.bootstrap(ctx.scratch)
  util = env.fresh('carbon.util')
  tr = rp['replay']['trace']
  RD = 61440 if rp['replay']['origin'] == 'history' else 4
  tick = 1.0 / 1024 if RD == 61440 else 1.0
  rec = Recorder(util, tr['cap'], tr['rn'], RD, tick)
  for e in tr['ev']:
    if e['now'] > rec.ticks():
      rec.advance(e['now'] - rec.ticks())
    if e['op'] == 'peek':
      rec.peek()
    elif e['op'] == 'try':
      rec.try_drain()
    elif e['op'] == 'block':
      rec.block_drain()
    else:
      rec.set_limits(e['c'], e['r'])
  traces = [rec.trace()]
  ctx.evaluations += 1
  handle_verdicts(ctx, judge(ctx, RD, traces, 'replay'), traces, rp['replay']['origin'])
