"""C08 - aggregates are the rule function over exactly the values of their interval.

A. TLC: Aggregator.tla (MetricBuffer / IntervalBuffer / BufferManager and the LoopingCall that
   runs compute_value on a virtual clock; a value is the id of its datapoint) - every emission
   covers the values received since the last emission, all values while the interval never
   expired, re-emission only on new data, MAX+2 cap after a flush, idle series released.
B. spec->code: TLC -simulate behaviours replayed on the real AggregationProcessor / RuleManager
   (rules file in scratch) / BufferManager with buffers.time virtual and every LoopingCall bound
   to a task.Clock.
C. code->spec: random streams (late, duplicate, out-of-order, very old, future timestamps) x
   random tick interleavings, MAX_AGGREGATION_INTERVALS / WRITE_BACK_FREQUENCY / FORWARD_ALL /
   name cache varied; Aggregator_Trace.tla re-synchronises on the observed buffers and judges the
   observed emissions (values 4^id under 'sum' make the aggregated ids decodable).
F. the rules file edited while series have live buffers: later values are aggregated by the edited rule.
E. the whole processing pipeline as carbon.service.setupPipeline installs it (rewrite:pre, aggregate,
   rewrite:post, relay / write; generated datapoints): Pipeline.tla - closed-form promises checked by TLC
   against the recursive run_pipeline, recorded cases of the real pipeline judged by the same module.
D. the rule pattern language: generated rules x names that hit and narrowly miss, judged by
   Aggregator_Trace!MatchFlags; numeric aggregation methods against exact references.
"""
import math
import random
from fractions import Fraction

from . import aggsys, tlc
from .core import Machinery

PROP = {'misses-new-values', 'not-all-values', 're-emitted-without-new-data', 'value-counted-twice', 'foreign-value',
        'aligned', 'dropped-within-horizon', 'more-than-M+2-after-flush', 'idle-series-not-released', 'forward', 'forward-altered',
        'rule-should-match', 'rule-should-not-match', 'aggregate-name', 'numeric'}
WHAT = {
  'misses-new-values': 'an emitted aggregate does not include a value received since that interval was last emitted',
  'not-all-values': 'an emitted aggregate of an interval still within the retention horizon is not over all values received for it',
  're-emitted-without-new-data': 'an interval was re-emitted although no new data arrived for it',
  'value-counted-twice': 'a value was aggregated twice',
  'foreign-value': 'an aggregate includes a value that was not received for that series and interval',
  'dropped-within-horizon': 'an interval buffer still within the retention horizon (age and newest MAX+2) was dropped: later values for it are aggregated without the earlier ones',
  'aligned': 'an emitted interval start is not a multiple of the rule frequency',
  'more-than-M+2-after-flush': 'more than MAX_AGGREGATION_INTERVALS + 2 intervals are buffered after a flush',
  'idle-series-not-released': 'a series without buffered intervals was not released (still configured / timer running)',
  'forward': 'a received datapoint was forwarded when it must not be, or not forwarded (exactly once) when it must be',
  'forward-altered': 'a forwarded datapoint differs from the received one',
  'rule-should-match': 'a rule pattern did not match a name it must match',
  'rule-should-not-match': 'a rule pattern matched a name it must not match (not a whole-name match / <field> crossed a dot)',
  'aggregate-name': 'the aggregate name built from the matched fields is wrong',
  'numeric': 'an aggregation method returned a value different from the exact reference',
}


def numeric_cases(am, rng, n):
  """value oracle: every aggregation method against an exact reference"""
  bad = []
  M = am.rules.AGGREGATION_METHODS
  for _ in range(n):
    vals = [rng.choice([rng.randint(-50, 50), rng.random() * 100, float(rng.randint(0, 9))]) for _ in range(rng.randint(1, 12))]
    fr = [Fraction(v) for v in vals]
    srt = sorted(fr)
    ref = dict(sum=sum(fr), avg=sum(fr) / len(fr), min=min(fr), max=max(fr), count=len(fr))
    for name, q in (('p50', 0.5), ('p75', 0.75), ('p80', 0.8), ('p90', 0.9), ('p95', 0.95), ('p99', 0.99), ('p999', 0.999)):
      rank = Fraction(q) * (len(fr) - 1)
      lo, hi = math.floor(rank), math.ceil(rank)
      ref[name] = srt[lo] if lo == hi else srt[lo] * (hi - rank) + srt[hi] * (rank - lo)
    for name, f in M.items():
      got = f(list(vals))
      exp = ref[name]
      tol = 1e-9 * max(1.0, abs(float(exp)))
      if got is None or abs(Fraction(got) - exp) > tol:
        bad.append((name, vals, got, float(exp)))
  return bad


def run(ctx):
  ctx.rule = ('rule out.<srv> (F) = sum in.<srv>.* over 3 series; streams of up to 24 datapoints with current, late, very old '
              'and future timestamps against random ticks; F 2-3, MAX_AGGREGATION_INTERVALS 1-2, WRITE_BACK_FREQUENCY unset/1, '
              'FORWARD_ALL on/off, name cache on/off; non-trivial = a run in which an interval was emitted more than once or expired')
  ctx.value_oracles.append('numeric aggregate of a list of values: exact Fraction / sorted / percentile formula references')
  ctx.assumptions += ['generated rule sets give distinct aggregate names to distinct rules',
                      'pattern oracle covers whole-segment <field>, <<field>>, *, pre*post and literals (no regex metacharacters in literals)']
  # A
  for i, (f, m, wb) in enumerate([(2, 1, 0), (2, 1, 1)] + ([] if ctx.quick else [(3, 2, 0), (2, 2, 1)])):
    consts = dict(Series='{1}' if ctx.quick else '{1,2}', F=f, M=m, WB=wb, MaxTs=7, MaxNow=9, MaxInputs=ctx.pick(5, 4))
    cfg = tlc.cfg_text(spec='Spec', constants=consts, invariants=['TypeOK', 'NoViolation'])
    res = tlc.check_ok(tlc.run('Aggregator', cfg, ctx.scratch, coverage=True, timeout=1500), 'Aggregator model')
    ctx.add_tlc('Aggregator[F=%d,M=%d,WB=%d]' % (f, m, wb), res, must_cover=None if res.violated else ['Input', 'Tick'])
    if res.violated:
      raise Machinery('Aggregator.tla violates %s' % res.violated)
  am = aggsys.AggModules(ctx.scratch)
  cfgs = [dict(F=2, M=1, WB=0), dict(F=2, M=1, WB=1, forward_all=False, cache_max=100),
          dict(F=3, M=2, WB=0, cache_max=100, cache_ttl=60)]
  if not ctx.quick:
    cfgs += [dict(F=2, M=2, WB=1), dict(F=3, M=1, WB=2, forward_all=False), dict(F=5, M=2, WB=0)]
  first = True
  for ci, cfg in enumerate(cfgs):
    traces = []
    # B: TLC behaviours
    consts = dict(Series='{1,2,3}', F=cfg['F'], M=cfg['M'], WB=cfg['WB'], MaxTs=3 * cfg['F'] + 4, MaxNow=4 * cfg['F'] + 6, MaxInputs=8)
    mcfg = tlc.cfg_text(spec='Spec', constants=consts)
    res, behs = tlc.simulate_behaviours('Aggregator', mcfg, ctx.scratch, num=ctx.pick(40, 400), depth=26, seed=ctx.seed + 7 + ci)
    tlc.check_ok(res, 'Aggregator simulate')
    for beh in behs:
      script = []
      prev = beh[0][1]
      for act, st in beh[1:]:
        if st['nin'] > prev['nin']:
          last = None
          for s in (1, 2, 3):
            if len(st['recvAll'][s - 1]) > len(prev['recvAll'][s - 1]):
              last = s
          # the timestamp itself is not in the state: any ts of that interval (take its start + parity)
          iv = st['recvAll'][last - 1][-1][0]
          script.append(('in', last, iv + (st['nin'] % cfg['F'])))
        else:
          script.append(('tick',))
        prev = st
      traces.append(aggsys.scripted_run(am, cfg, script))
      ctx.evaluations += 1
    nsim = len(traces)
    # C: random runs
    for _ in range(ctx.pick(60, 800)):
      rr = random.Random(ctx.rng.randrange(1 << 30))
      traces.append(aggsys.random_run(am, cfg, rr, rr.randint(20, 45)))
      ctx.evaluations += 1
    # D: pattern language
    am.settings['CACHE_METRIC_NAMES_MAX'] = cfg.get('cache_max', 0)
    am.settings['CACHE_METRIC_NAMES_TTL'] = cfg.get('cache_ttl', 0)
    traces += aggsys.match_cases(am, ctx.rng, ctx.pick(120, 1500), with_newline=True)
    verdicts = aggsys.judge(ctx, cfg, traces, 'C08 traces cfg %d' % ci)
    for i, tr in enumerate(traces):
      ctx.traces += 1
      if tr['kind'] == 'run':
        seen = set()
        for e in tr['ev']:
          if e['e'] == 'tick':
            for em in e['em']:
              if (em[0], em[1]) in seen:
                ctx.nontriv((ci, i))
              seen.add((em[0], em[1]))
      else:
        ctx.evaluations += 1
        if tr['matched']:
          ctx.nontriv((ci, i))
      for f in sorted(verdicts[i] & PROP):
        ctx.violation(WHAT[f], dict(cfg=cfg, trace=tr if tr['kind'] == 'match' else dict(ev=tr['ev'][:60]), flags=sorted(verdicts[i])),
                      signature=f)
      dr = sorted(f for f in verdicts[i] if f.startswith('drift:'))
      if dr:
        ctx.note_drift('aggregator trace %d (cfg %d) deviates from Aggregator.tla in %s' % (i, ci, dr))
    if first:
      ctx.sample(dict(kind='random aggregator run', cfg=cfg, events=[{k: v for k, v in e.items() if k != 'p'} for e in traces[nsim]['ev'][:14]]))
      ctx.sample(dict(kind='pattern case', case=traces[-1]['text']))
      # negative control: an emission loses one of its values
      import copy
      bad = None
      for tr in traces:
        if tr['kind'] == 'run' and not verdicts[traces.index(tr)]:
          for e in tr['ev']:
            if e['e'] == 'tick' and any(len(x[2]) >= 2 for x in e['em']):
              bad = copy.deepcopy(tr)
              for e2 in bad['ev']:
                if e2['e'] == 'tick':
                  for x in e2['em']:
                    if len(x[2]) >= 2:
                      x[2] = x[2][1:]
                      break
                  else:
                    continue
                  break
              break
        if bad:
          break
      if bad:
        v = aggsys.judge(ctx, cfg, [bad], 'negative control')
        ctx.negative_control('a value removed from a recorded emission', bool(v[0] & {'misses-new-values', 'not-all-values', 'drift:emissions'}))
      first = False
  bad = numeric_cases(am, ctx.rng, ctx.pick(300, 5000))
  ctx.evaluations += ctx.pick(300, 5000)
  for b in bad[:5]:
    ctx.violation(WHAT['numeric'], dict(method=b[0], values=b[1], got=b[2], expected=b[3]), signature='numeric')
  reload_section(ctx, am)
  pipeline_section(ctx)


def reload_section(ctx, am):
  """F. the aggregation rules file is edited while series have live buffers: what is emitted afterwards follows the
  rules in force when the values arrived (method, frequency and target of the edited rule)."""
  import os
  rng = ctx.rng
  methods = ['sum', 'avg', 'min', 'max', 'count']
  for k in range(ctx.pick(12, 120)):
    F = rng.choice([2, 5, 10])
    cfg = dict(F=F, M=5, WB=0, forward_all=False)
    run = aggsys.AggRun(am, cfg)
    run.build()
    try:
      rm = am.rules.RuleManager
      m1, m2 = rng.sample(methods, 2)
      F2 = F if rng.random() < 0.6 else rng.choice([2, 5, 10])
      target2 = 'out' if rng.random() < 0.6 else 'agg2'

      def write(method, freq, target, mtime):
        with open(rm.rules_file, 'w') as fh:
          fh.write('%s.<srv> (%d) = %s in.<srv>.*\n' % (target, freq, method))
        os.utime(rm.rules_file, (mtime, mtime))
      write(m1, F, 'out', 1000.0)
      rm.rules_last_read = 0.0
      rm.read_rules()
      now = int(run.ftime.now)
      base = now - now % F
      vals1 = [float(rng.randint(1, 9)) for _ in range(rng.randint(1, 3))]
      for v in vals1:
        list(run.proc.process('in.s1.h0', (base + rng.randint(0, F - 1), v)))
      if rng.random() < 0.5:
        for _ in range(F):
          run.tick()                      # the first interval has been emitted before the edit
      write(m2, F2, target2, 2000.0)       # the edit (a preserved, older-than-now modification time)
      rm.read_rules()
      now = int(run.ftime.now)
      base2 = now - now % F2
      vals2 = [float(rng.randint(1, 9)) for _ in range(rng.randint(1, 4))]
      for v in vals2:
        list(run.proc.process('in.s1.h1', (base2 + rng.randint(0, F2 - 1), v)))
      got = []
      for _ in range(3 * max(F, F2) + 2):
        run.emitted = []
        run.ftime.now += 1
        run.clock.advance(1)
        got += [(m, dp) for m, dp in run.emitted if dp[0] == base2 and m == '%s.s1' % target2]
      ref = dict(sum=sum(vals2), avg=sum(vals2) / len(vals2), min=min(vals2), max=max(vals2), count=float(len(vals2)))[m2]
      ctx.evaluations += 1
      ctx.traces += 1
      ctx.nontriv(('reload', k))
      ok = got and abs(got[-1][1][1] - ref) < 1e-9
      if not ok:
        ctx.violation('after the aggregation rules file was edited (%s every %d s -> %s every %d s into %s.<srv>) the values received under the '
                      'new rule were not aggregated by it: expected %s.s1 = %r for interval %d, emitted %r'
                      % (m1, F, m2, F2, target2, target2, ref, base2, got), dict(before=[m1, F, 'out'], after=[m2, F2, target2], values_before=vals1,
                                                                               values_after=vals2, emitted=repr(got)), signature='reload')
    finally:
      run.teardown()
  ctx.cov['rules_reload_cases'] = ctx.pick(12, 120)


def pipeline_section(ctx):
  """E. the daemon's processing pipeline as carbon.service.setupPipeline builds it (Pipeline.tla): what a received
  datapoint feeds and where it is delivered, through the real rewrite / aggregate / relay / write processors."""
  from . import pipesys
  pipesys.model(ctx)
  pe = pipesys.PipeEnv(ctx.scratch)
  recs = pipesys.gen_cases(ctx, pe, ctx.rng, ctx.pick(60, 500))
  flags = pipesys.judge(ctx, recs)
  nagg = 0
  for rec, fl in zip(recs, flags):
    ctx.traces += 1
    aggd = 'aggregate' in rec['stages']
    if aggd and rec['gen'] == 0:
      nagg += 1
      ctx.nontriv(('pipeline', ctx.traces))
    if rec['altered']:
      fl = fl | {'forward-altered'}
    if rec.get('dup_bad'):
      ctx.violation('a datapoint that arrives twice in one pickle frame (two equal samples) was not aggregated / forwarded twice', rec['text'],
                    signature='duplicate-suppressed')
    for f in sorted(fl):
      if aggd and f == 'delivered':
        ctx.violation(WHAT['forward'] + ' [observed at the end of the daemon\'s pipeline]', rec['text'], signature='forward')
      elif aggd and f == 'forward-altered':
        ctx.violation(WHAT['forward-altered'] + ' [observed at the end of the daemon\'s pipeline]', rec['text'], signature='forward-altered')
      elif aggd and f == 'aggregates-fed':
        ctx.violation('a received datapoint did not feed exactly the aggregates the rules derive from its (pre-rewritten) name', rec['text'],
                      signature='aggregates-fed')
      else:
        ctx.note_drift('pipeline (%s): %s differs from Pipeline.tla: %s' % (rec['text'].get('daemon'), f, {k: v for k, v in rec['text'].items() if k != 'daemon'}))
  ctx.cov['pipeline_cases'] = len(recs)
  ctx.cov['pipeline_cases_through_aggregator'] = nagg
  import copy
  good = next((r for r, fl in zip(recs, flags) if not fl and r['sink'] and r['gen'] == 0), None)
  if good is not None:
    bad = copy.deepcopy(good)
    bad['sink'] = bad['sink'] + bad['sink']
    ctx.negative_control('pipeline: a delivery duplicated in a recorded case', 'delivered' in pipesys.judge(ctx, [bad])[0])
  # the periodic re-read of the two rule files of the pipeline (Reload.tla): the aggregation rules decide what is
  # aggregated at all (a rule set that is not the file's breaks the property), the rewrite rules are reported as drift
  from . import reloadsys
  reloadsys.check(ctx, 'aggrules')
  reloadsys.check(ctx, 'rewrite', as_drift=True)


def replay(ctx, rp):
  raise NotImplementedError('runs are regenerated from the seed: run ./check C08 with VERIF_SEED')
