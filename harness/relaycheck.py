"""Shared driver for the relay-side checks (C07, C09 relay side)."""
import copy
import random

from . import relaysys, tlc
from .core import Machinery

C07_FLAGS = {'content', 'drops', 'fake', 'batch', 'stopflush', 'undelivered', 'abandoned', 'misrouted'}
C09_FLAGS = {'stuck'}
WHAT = {
  'content': 'what a destination has been sent plus what is still queued for it is not the accepted datapoints in arrival order, exactly once (within the hard limit)',
  'drops': 'the fullQueueDrops counter does not match the datapoints discarded at the hard limit',
  'fake': 'datapoints buffered while no destination is available were lost or duplicated',
  'batch': 'a message carried more than MAX_DATAPOINTS_PER_MESSAGE datapoints (or none)',
  'stopflush': 'an orderly stop closed a connection whose queue still held datapoints',
  'f19': 'during an orderly stop a connection is lost and the dynamic router removes the destination: the queued datapoints it re-routes are dropped (or parked at a destination that has already stopped) instead of being flushed after a reconnect',
  'misrouted': 'a datapoint was routed to no destination although one is configured (or to one that is not): it is held back / dropped instead of queued',
  'abandoned': 'a destination whose queue still holds datapoints is neither connected nor connecting nor waiting to retry: they will never be written',
  'undelivered': 'a connected, unpaused destination holds queued datapoints but no send is scheduled: they will never be written',
  'stuck': 'quiescent with a destination up and every send queue below its low watermark, but receivers are still paused',
}
INV_C07 = ['TypeOK', 'FifoOnce', 'NormalOrder', 'DropsCounted', 'Bounded', 'BatchSize', 'StopAfterFlush', 'NoLoss',
           'SendScheduled']


def consts_for(rm, maxitems, maxconn, posttake=True, removal_releases=True):
  c = dict(rm.consts)
  c.update(PostTake='TRUE' if posttake else 'FALSE', MaxItems=maxitems, MaxConnEvents=maxconn,
           RemovalReleases='TRUE' if removal_releases else 'FALSE')
  return c


def model_check(ctx, name, consts, invs, timeout=900):
  cfg = tlc.cfg_text(spec='Spec', constants=consts, invariants=invs, constraints=['Bound'])
  res = tlc.check_ok(tlc.run('Relay', cfg, ctx.scratch, coverage=True, timeout=timeout), name)
  ctx.add_tlc(name, res, must_cover=None if res.violated else
              ['Arrive', 'SendTimer', 'ConnMade', 'ConnLost', 'ConnFailed', 'RetryTimer', 'TPause', 'TResume', 'Stop'])
  return res


def simulate_scripts(ctx, consts, num, depth, seed):
  cfg = tlc.cfg_text(spec='Spec', constants=consts)
  res, behs = tlc.simulate_behaviours('Relay', cfg, ctx.scratch, num=num, depth=depth, seed=seed)
  tlc.check_ok(res, 'Relay simulate')
  scripts = []
  for beh in behs:
    scripts.append([(st['lastEv'][0], st['lastEv'][1]) for a, st in beh[1:]])
  return scripts


def judge(ctx, consts, traces, what):
  c = dict(consts)
  c.update(MaxItems=0, MaxConnEvents=0)
  cfg = tlc.cfg_text(spec='TSpec', constants=c, constraints=['Report'])
  out = {}
  CH = 150
  for k in range(0, len(traces), CH):
    chunk = traces[k:k + CH]
    res, done, bad = tlc.validate_batch('Relay_Trace', cfg, ctx.scratch, chunk, workers=4)
    tlc.check_ok(res, what)
    ctx.states += res.distinct
    ctx.transitions += res.generated
    got = {}
    for v in tlc.extract_prints(res.out, 'DONE'):
      got[v[1]] = set()
    for v in tlc.extract_prints(res.out, 'F'):
      got.setdefault(v[1], set()).add((v[2], v[3]))
    if len(got) != len(chunk):
      raise Machinery('%s: %d of %d traces judged\n%s' % (what, len(got), len(chunk), res.out[-2500:]))
    for i in range(1, len(chunk) + 1):
      out[k + i - 1] = got[i]
  return out


def report(ctx, traces, origins, verdicts, vflags):
  for i, tr in enumerate(traces):
    ctx.traces += 1
    evs = tr['ev']
    kinds = set(e['e'] for e in evs)
    if {'ConnLost', 'ConnFailed'} & kinds and any(e['p']['wire'] != [[] for _ in e['p']['wire']] for e in evs[-1:]):
      ctx.nontriv(('reconnect', i))
    elif any(any(e['p']['fullCalled']) for e in evs):
      ctx.nontriv(('full', i))
    if any(e['p']['rpaused'] for e in evs):
      ctx.cov['traces_with_paused_receivers'] = ctx.cov.get('traces_with_paused_receivers', 0) + 1
    fl = verdicts[i]
    for f, at in sorted(fl):
      if f in ('fake-stop', 'abandoned-stop') and 'fake' in vflags:
        # listed finding F19 (C07): a connection is lost while the orderly stop waits for its queue; the dynamic router
        # removes the destination and re-routes the queue into a manager that is being dismantled
        ctx.violation(WHAT['f19'] + ' (event %d: %s %s)' % (at, evs[at - 1]['e'], evs[at - 1]['arg']),
                      dict(origin=origins[i], flags=sorted(fl), events=[[e['e'], e['arg']] for e in evs[1:]], at=at,
                           before=evs[at - 2]['p'] if at >= 2 else None, after=evs[at - 1]['p']), signature='f19')
        continue
      if f in vflags:
        ctx.violation(WHAT[f] + ' (event %d: %s %s)' % (at, evs[at - 1]['e'], evs[at - 1]['arg']),
                      dict(origin=origins[i], flags=sorted(fl), events=[[e['e'], e['arg']] for e in evs[1:]],
                           at=at, before=evs[at - 2]['p'] if at >= 2 else None, after=evs[at - 1]['p']), signature=f)
    drift = sorted(set(f for f, at in fl if f.startswith('drift:')))
    if drift:
      ctx.note_drift('relay trace %d (%s) deviates from Relay.tla in %s' % (i, origins[i].get('kind'), drift))


def negative_controls(ctx, consts, traces, verdicts):
  pick = None
  for i, tr in enumerate(traces):
    if not any(f in C07_FLAGS for f, at in verdicts[i]):
      for j, e in enumerate(tr['ev']):
        if any(len(w) >= 1 for w in e['p']['wire']) and j + 1 < len(tr['ev']):
          pick = (i, j)
          break
    if pick:
      break
  if not pick:
    if ctx.violations:
      ctx.neg_controls.append(dict(name='skipped: every recorded trace is flagged', rejected=True))
      return
    raise Machinery('no clean relay trace with bytes on a wire for a negative control')
  i, j = pick
  a = copy.deepcopy(traces[i])
  for e in a['ev'][j:]:
    for w in e['p']['wire']:
      if w:
        w[0] = w[0][1:] if len(w[0]) > 1 else [w[0][0] + 500]     # a sent datapoint vanishes / is replaced
        break
  b = copy.deepcopy(traces[i])
  for e in b['ev'][j:]:
    e['p']['drops'][0] += 1
  v = judge(ctx, consts, [a, b], 'negative controls')
  ctx.negative_control('datapoint removed from the bytes written', any(f == 'content' for f, at in v[0]))
  ctx.negative_control('drop counter off by one', any(f == 'drops' for f, at in v[1]))


CONFIGS_QUICK = [
  dict(nd=2, maxq=2, mpm=2, flow=True, dynamic=False, nr=1, wbuf=True),
  dict(nd=2, maxq=4, mpm=2, flow=True, dynamic=True, max_retries=1, nr=1),
  dict(nd=1, maxq=2, mpm=1, flow=False, dynamic=False, nr=1, protocol='line'),
  dict(nd=2, maxq=4, mpm=2, flow=True, dynamic=False, nr=1, ratio=True),       # USE_RATIO_RESET: Slow / Fast events, quality resets
]
CONFIGS_MORE = [
  dict(nd=3, maxq=3, mpm=2, flow=True, dynamic=True, max_retries=2, nr=2, rf=2),
  dict(nd=2, maxq=5, mpm=3, flow=True, dynamic=False, nr=2, low_pct=0.5, hard_pct=1.5),
  dict(nd=4, maxq=4, mpm=4, flow=True, dynamic=True, max_retries=1, nr=1, protocol='line'),
  dict(nd=2, maxq=2, mpm=2, flow=False, dynamic=True, max_retries=1, nr=1),
  dict(nd=2, maxq=3, mpm=1, flow=True, dynamic=True, max_retries=1, nr=1, ratio=True, protocol='line'),
]


def run_traces(ctx, rm, cfg, nsim, nrandom, nevents, seed_base, maxitems=6, maxconn=5):
  """Returns (consts, traces, origins) for one configuration."""
  rm.configure(cfg)
  consts = consts_for(rm, maxitems, maxconn)
  traces, origins = [], []
  scripts = simulate_scripts(ctx, consts, nsim, 22, seed_base)
  for sc in scripts:
    tr, skipped = relaysys.scripted_run(rm, cfg, sc, settle=True)
    traces.append(tr)
    origins.append(dict(kind='replayed TLC behaviour', cfg=cfg, script=[list(x) for x in sc], skipped=skipped))
    ctx.evaluations += 1
    if skipped:
      ctx.cov['replays_cut_short'] = ctx.cov.get('replays_cut_short', 0) + 1
  # directed: an orderly stop while datapoints are queued behind a paused transport, then the connection is lost:
  # the destination must be retried, reconnected and flushed before it is given up
  nd = cfg['nd']
  for variant in range(3):
    sc = [('ConnMade', d) for d in range(1, nd + 1)] + [('TPause', d) for d in range(1, nd + 1)]
    sc += [('Arrive', 0)] * (2 + variant) + [('Stop', 0)]
    if variant == 0:
      sc += [('ConnLost', d) for d in range(1, nd + 1)] + [('RetryTimer', d) for d in range(1, nd + 1)] + [('ConnMade', d) for d in range(1, nd + 1)]
    elif variant == 1:
      sc += [('TResume', 1), ('ConnLost', 1), ('RetryTimer', 1), ('ConnMade', 1)]
    else:
      sc += [('ConnLost', 1), ('RetryTimer', 1), ('ConnFailed', 1), ('RetryTimer', 1), ('ConnMade', 1)]
    tr, skipped = relaysys.scripted_run(rm, cfg, sc, settle=True)
    traces.append(tr)
    origins.append(dict(kind='replayed TLC behaviour', cfg=cfg, script=[list(x) for x in sc], skipped=skipped, directed='stop with a backlog'))
    ctx.evaluations += 1
  if cfg.get('dynamic'):
    # directed: every destination fails until the dynamic router has removed them all; datapoints that arrive now are held
    # back by the manager; a destination comes back: what was held back is routed to it, nothing disappears
    mr = cfg.get('max_retries', 1)
    for variant in range(2):
      sc = []
      if variant:
        # the destinations were up first: losing the last one pauses the receivers
        # (with datapoints queued behind paused transports: the queue of the LAST destination to go has nowhere to be re-routed to)
        sc += [('ConnMade', d) for d in range(1, nd + 1)] + [('TPause', d) for d in range(1, nd + 1)] + [('Arrive', 0)] * 3
        sc += [('ConnLost', d) for d in range(1, nd + 1)]
        for r in range(1, mr):
          sc += [('RetryTimer', d) for d in range(1, nd + 1)] + [('ConnFailed', d) for d in range(1, nd + 1)]
      else:
        for r in range(mr + 1):
          sc += [('ConnFailed', d) for d in range(1, nd + 1)] + ([('RetryTimer', d) for d in range(1, nd + 1)] if r < mr else [])
      sc += [('Arrive', 0)] * (2 + variant)
      # receivers that connect while everything is paused register their own pause / resume handlers
      sc += [('RConnect', c) for c in range(1, cfg.get('nr', 1) + 1)]
      sc += [('RetryTimer', 1), ('ConnMade', 1), ('SendTimer', 1), ('SendTimer', 1)]
      if variant and nd > 1:
        sc += [('RetryTimer', 2), ('ConnMade', 2), ('Arrive', 0), ('SendTimer', 2)]
      tr, skipped = relaysys.scripted_run(rm, cfg, sc, settle=True)
      traces.append(tr)
      origins.append(dict(kind='replayed TLC behaviour', cfg=cfg, script=[list(x) for x in sc], skipped=skipped, directed='all destinations down, then one returns'))
      ctx.evaluations += 1
  if cfg.get('dynamic') and nd >= 2:
    # directed: every queue is full behind paused transports (receivers paused); one destination is lost and removed by the
    # dynamic router while it is "full"; the survivors drain completely: the receivers must be listening again
    mr = cfg.get('max_retries', 1)
    hard = int(cfg['maxq'] * cfg.get('hard_pct', 1.25)) + 1
    for lost in (1, nd):
      sc = [('RConnect', c) for c in range(1, cfg.get('nr', 1) + 1)]
      sc += [('ConnMade', d) for d in range(1, nd + 1)] + [('TPause', d) for d in range(1, nd + 1)]
      sc += [('Arrive', 0)] * (hard * nd * 2)
      sc += [('ConnLost', lost)]
      for r in range(mr):
        sc += [('RetryTimer', lost), ('ConnFailed', lost)]
      sc += [('TResume', d) for d in range(1, nd + 1) if d != lost]
      tr, skipped = relaysys.scripted_run(rm, cfg, sc, settle=True, max_settle=400)
      traces.append(tr)
      origins.append(dict(kind='replayed TLC behaviour', cfg=cfg, script=[list(x) for x in sc], skipped=skipped, directed='a full destination is removed, the others drain'))
      ctx.evaluations += 1
  if cfg.get('dynamic') and nd == 2 and cfg.get('max_retries', 1) == 1 and cfg.get('maxq') == 4 and not cfg.get('ratio'):
    # witness of the listed finding F19 (found by the thorough tier): the orderly stop has begun; a destination that had
    # finished stopping is re-added to the router by a late reconnect; the other destination's connection is lost and the
    # dynamic router re-routes its queue to the destination whose factory is gone
    wseed, ww = 544404605, dict(Arrive=10, SendTimer=2, TPause=2)
    wcfg = dict(nd=2, maxq=4, mpm=2, flow=True, dynamic=True, max_retries=1, nr=1)
    if all(cfg.get(k_) == v_ for k_, v_ in wcfg.items()):
      tr = relaysys.random_run(rm, cfg, random.Random(wseed), 120, settle=True, weights=ww)
      traces.append(tr)
      origins.append(dict(kind='random history', cfg=cfg, rseed=wseed, weights=ww, nevents=120, directed='F19 witness'))
      ctx.evaluations += 1
  if cfg.get('dynamic') and nd >= 2 and cfg.get('flow', True):
    # directed (adaptive): ONE destination is full behind a paused transport while the others keep flowing; it is lost and
    # removed by the dynamic router; nothing but its retries is left to happen: the receivers must be listening (F18)
    for victim in (1, nd):
      for drain_first in (True, False):
        tr, sc = relaysys.full_then_removed_run(rm, cfg, victim, drain_first)
        traces.append(tr)
        origins.append(dict(kind='replayed TLC behaviour', cfg=cfg, script=[list(x) for x in sc], skipped=[], settle=False, directed='one full destination is removed'))
        ctx.evaluations += 1
  for k in range(nrandom):
    seed = ctx.rng.randrange(1 << 30)
    rr = random.Random(seed)
    w = {}
    if k % 4 == 1:
      w = dict(Arrive=10, SendTimer=2, TPause=2)     # queues fill up
    elif k % 4 == 2:
      w = dict(ConnLost=3, ConnFailed=3, RetryTimer=4)   # flapping connections
    elif k % 4 == 3:
      # a slow destination: the queue fills while connected, then the connection flaps, then drains
      w = dict(Arrive=12, SendTimer=0.7, TPause=3, TResume=1, ConnLost=2.5, RetryTimer=6, ConnMade=6, Stop=0.05)
    tr = relaysys.random_run(rm, cfg, rr, nevents, settle=True, weights=w)
    traces.append(tr)
    origins.append(dict(kind='random history', cfg=cfg, rseed=seed, weights=w, nevents=nevents))
    ctx.evaluations += 1
  return consts, traces, origins


def rerun(rm, origin):
  cfg = origin['cfg']
  rm.configure(cfg)
  if origin['kind'] == 'random history':
    return relaysys.random_run(rm, cfg, random.Random(origin['rseed']), origin['nevents'], settle=True,
                               weights=origin['weights'])
  tr, skipped = relaysys.scripted_run(rm, cfg, [tuple(x) for x in origin['script']], settle=origin.get('settle', True))
  return tr
