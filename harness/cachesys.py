"""Real carbon.cache._MetricCache under the deterministic scheduler: workload threads,
event recording, and judgement of the recorded traces by CacheLin.tla."""
import json
import pickle
import struct
import types

from . import env, sched, tlc
from .core import Machinery

STRATEGIES = ['naive', 'max', 'sorted', 'timesorted', 'random', 'bucketmax']


def hard_limits(maxsize, flow):
  """property bound = floor(h) for h = MAX or 1.05*MAX (a store is refused when size + 1 > h)."""
  import math
  if maxsize is None:
    return 0, 0, float('inf'), float('inf')
  h = maxsize * 1.05 if flow else maxsize
  return int(math.floor(h)), int(math.floor(h)), h, maxsize * 0.95


class Modules(object):
  """carbon modules imported once per check process."""
  def __init__(self, scratch):
    self.settings = env.bootstrap(scratch)
    import carbon.cache
    import carbon.events
    import carbon.state
    import carbon.protocols
    self.cache = carbon.cache
    self.events = carbon.events
    self.state = carbon.state
    self.protocols = carbon.protocols
    import carbon.instrumentation
    self.state.instrumentation = carbon.instrumentation
    self.state.events = carbon.events
    self.files = {carbon.cache.__file__}


class FakeTime(object):
  def __init__(self):
    self.now = 0.0
    self.reads = []

  def time(self):
    self.reads.append(self.now)
    return self.now


def _failing_subscriber(tag):
  raise RuntimeError('subscriber failure (injected)')


class CacheRun(object):
  def __init__(self, mods, cfg, r_ops, w_ops, files=None, opcodes=False):
    self.mods = mods
    self.cfg = cfg
    self.r_ops = r_ops
    self.w_ops = w_ops
    self.ev = []
    self.files = files if files is not None else (() if cfg.get('coarse') else mods.files)
    self.opcodes = opcodes

  # ---- set-up of the real objects ------------------------------------------------
  def build(self):
    m, cfg = self.mods, self.cfg
    s = m.settings
    bound, hardc, h, low = hard_limits(cfg.get('max'), cfg.get('flow', False))
    s['CACHE_WRITE_STRATEGY'] = cfg['strategy']
    s['MAX_CACHE_SIZE'] = float('inf') if cfg.get('max') is None else cfg['max']
    s['USE_FLOW_CONTROL'] = bool(cfg.get('flow', False))
    s['CACHE_SIZE_HARD_MAX'] = h
    s['CACHE_SIZE_LOW_WATERMARK'] = low
    s['MIN_TIMESTAMP_LAG'] = cfg.get('lag', 0)
    s['USE_INSECURE_UNPICKLER'] = False
    m.cache._Cache = None
    self.clock = FakeTime()
    m.cache.time = self.clock
    self.cache = m.cache.MetricCache()
    if cfg.get('via') == 'processor':
      self.proc = m.cache.CacheFeedingProcessor()
    self.sched = sched.Scheduler(files=self.files, opcodes=self.opcodes)
    self.cache.lock = self.sched.lock('cache')
    m.state.cacheTooFull = False
    m.state.metricReceiversPaused = False
    self.overflow = 0

    def on_overflow():
      self.overflow += 1
    self._ovh = on_overflow
    m.events.cacheOverflow.addHandler(on_overflow)
    self._failing = None
    if cfg.get('flow'):
      # a subscriber of cacheSpaceAvailable that fails (a callable without __name__): the event dispatcher isolates it,
      # the drain that fired the event is not affected
      import functools
      self._failing = functools.partial(_failing_subscriber, 'x')
      m.events.cacheSpaceAvailable.addHandler(self._failing)
    strat = self.cache.strategy
    if strat is not None:
      orig = strat.choose_item

      def choose_item():
        # the clock value the strategy itself read while taking a snapshot (the other thread may
        # advance the clock between that read and this log line)
        self.clock.reads = []
        r = orig()
        now = self.clock.reads[0] if self.clock.reads else self.clock.now
        self.ev.append(dict(k='chose', m=self.mid(r), now=int(now), lag=int(m.settings.MIN_TIMESTAMP_LAG)))
        return r
      strat.choose_item = choose_item
    self.last_obs = None
    self.sched.on_point = self.observe
    self.names = {}
    self.trace_meta = dict(strategy=cfg['strategy'], bound=bound, hardc=hardc, lag=int(cfg.get('lag', 0)))

  def teardown(self):
    m = self.mods
    m.events.cacheOverflow.removeHandler(self._ovh)
    if self._failing is not None:
      m.events.cacheSpaceAvailable.removeHandler(self._failing)
    m.cache._Cache = None
    import time
    import random
    m.cache.time = time
    m.cache.choice = random.choice

  def mid(self, name):
    if name is None:
      return 0
    return int(name.split(';')[0].split('{')[0][1:])

  # with cfg['via'] = 'processor' the datapoints arrive through the daemon's CacheFeedingProcessor under several spellings
  # of one tagged series (tags in another order, OpenMetrics syntax); the cache holds it under its canonical name
  def key(self, mname):
    return mname + ';a=1;b=2' if self.cfg.get('via') == 'processor' else mname

  def spelled(self, mname):
    self.nspell = getattr(self, 'nspell', 0) + 1
    return [mname + ';b=2;a=1', mname + '{b="2",a="1"}', mname + ';a=1;b=2'][self.nspell % 3]

  def observe(self, thread=None, kind=None, force=False):
    c = self.cache
    lk = c.lock
    if lk.owner is not None and not force:
      return
    try:
      held = sum(len(v) for v in list(c.values()))
      o = (c.size, held, len(c))
    except RuntimeError:
      return
    if o != self.last_obs or force:
      self.last_obs = o
      self.ev.append(dict(k='obs', size=o[0], held=o[1], nkeys=o[2]))

  # ---- operations ----------------------------------------------------------------
  # with cfg['frac'] the timestamp ids 1, 2, 3.. are the float timestamps 10.0, 10.25, 10.5, 10.75, 11.0, ..: a whole
  # second and several sub-second timestamps of the same second, still strictly increasing with the id
  def tenc(self, ts):
    return 10 + 0.25 * (ts - 1) if self.cfg.get('frac') else ts

  def tdec(self, x):
    return int(round((x - 10) / 0.25)) + 1 if self.cfg.get('frac') else int(x)

  def do_store(self, t, op):
    _, mname, ts, vid = op
    self.ev.append(dict(k='call', t=t, op='store', m=self.mid(mname), ts=ts, id=vid))
    before = self.overflow
    exc = 0
    try:
      if self.cfg.get('via') == 'processor':
        list(self.proc.process(self.spelled(mname), (self.tenc(ts), enc(vid))) or ())
      else:
        self.cache.store(mname, (self.tenc(ts), enc(vid)))
    except Exception as e:
      exc = 1
      self.last_exc = repr(e)
    self.ev.append(dict(k='ret', t=t, op='store', exc=exc, sig=self.overflow - before, m=0, batch=[]))

  def do_drain(self, t):
    self.ev.append(dict(k='call', t=t, op='drain', m=0, ts=0, id=0))
    exc = 0
    metric, pts = None, []
    try:
      metric, pts = self.cache.drain_metric()
    except Exception as e:
      exc = 1
      self.last_exc = repr(e)
    self.ev.append(dict(k='ret', t=t, op='drain', exc=exc, sig=0, m=self.mid(metric),
                        batch=[[self.tdec(a), dec(b)] for a, b in pts]))
    return metric

  def do_query(self, t, op):
    from twisted.internet.testing import StringTransport
    _, mname = op
    mname = self.key(mname)
    self.ev.append(dict(k='call', t=t, op='query', m=self.mid(mname), ts=0, id=0))
    h = self.mods.protocols.CacheManagementHandler()
    tr = StringTransport()
    h.makeConnection(tr)
    # every other query is a bulk query for this one series (graphite-web uses both request types)
    self.nq = getattr(self, 'nq', 0) + 1
    bulk = self.nq % 2 == 0
    req = pickle.dumps(dict(type='cache-query-bulk', metrics=[mname]) if bulk else dict(type='cache-query', metric=mname), protocol=2)
    h.dataReceived(struct.pack('!L', len(req)) + req)
    raw = tr.value()
    (n,) = struct.unpack('!L', raw[:4])
    resp = pickle.loads(raw[4:4 + n])
    if bulk:
      resp = dict(datapoints=resp['datapointsByMetric'][mname])
    self.ev.append(dict(k='ret', t=t, op='query', exc=0, sig=0, m=self.mid(mname),
                        batch=[[self.tdec(a), dec(b)] for a, b in resp['datapoints']]))

  def r_body(self):
    for op in self.r_ops:
      if op[0] == 'store':
        self.do_store('R', op)
      elif op[0] == 'query':
        self.do_query('R', op)
      elif op[0] == 'tick':
        self.clock.now += op[1]
      self.sched.point('op')

  def w_body(self):
    for op in self.w_ops:
      self.do_drain('W')
      self.sched.point('op')

  # ---- one execution -------------------------------------------------------------
  def execute(self, chooser, flush=True):
    self.build()
    try:
      self.sched.spawn('R', self.r_body)
      self.sched.spawn('W', self.w_body)
      log = self.sched.run(chooser)
      for t in self.sched.threads:
        if t.exc is not None:
          raise Machinery('workload thread %s died: %r' % (t.name, t.exc))
      self.observe(force=True)
      if flush:
        if self.cfg.get('shutdown_flush'):
          # an orderly shutdown: the writer's hook sets MIN_TIMESTAMP_LAG to 0 (no point in waiting any longer) and the
          # final passes must hand out everything, however young
          self.mods.settings['MIN_TIMESTAMP_LAG'] = 0
        else:
          self.clock.now += self.cfg.get('lag', 0) + 10
        n = 0
        while len(self.cache) and n < 3 * len(self.cache) + 6:
          self.do_drain('W')
          n += 1
        # one more drain on an empty cache must report "nothing"
        self.do_drain('W')
      self.observe(force=True)
      self.ev.append(dict(k='end'))
    finally:
      self.teardown()
    tr = dict(self.trace_meta)
    tr['ev'] = self.ev
    return tr, log


# ---------------------------------------------------------------------------------
# workloads

def enc(vid):
  """value stored for datapoint id `vid`: id 1 carries the value 0.0 (a falsy value must behave like any other)"""
  return 0.0 if vid == 1 else float(vid)


def dec(v):
  return 1 if v == 0 else int(v)


def band_workload(rng, nmetrics=3, nstores=23):
  """stores of distinct (metric, timestamp) pairs, enough to fill a cache of MAX_CACHE_SIZE = 20 into the band between
  the soft limit (MAX: 'nearly full', flow control pauses) and the hard limit (1.05 * MAX: refusals)"""
  pairs = [(m, t) for t in range(1, 10) for m in range(1, nmetrics + 1)]
  rng.shuffle(pairs)
  ops = [('store', 'm%d' % m, t, i + 1) for i, (m, t) in enumerate(pairs[:nstores])]
  # two re-stores of cached timestamps (accepted even when full)
  for j in range(2):
    m, t = pairs[rng.randrange(nstores)]
    ops.append(('store', 'm%d' % m, t, nstores + j + 1))
  return ops, [('drain',)] * 2


def gen_workload(rng, nmetrics, nts, nstores, ndrains, nqueries=1, ticks=False):
  ops = []
  vid = 0
  for i in range(nstores):
    vid += 1
    ops.append(('store', 'm%d' % rng.randint(1, nmetrics), rng.randint(1, nts), vid))
  for i in range(nqueries):
    ops.insert(rng.randint(0, len(ops)), ('query', 'm%d' % rng.randint(1, nmetrics)))
  if ticks:
    for i in range(2):
      ops.insert(rng.randint(0, len(ops)), ('tick', rng.choice([1, 3])))
  return ops, [('drain',)] * ndrains


# ---------------------------------------------------------------------------------
# judgement

def judge(ctx, traces, what, progress=True):
  """Returns {index: ('ok', flags) | ('rejected', info)} for a list of traces."""
  cfg = tlc.cfg_text(spec='Spec', constraints=['Report'])
  out = {}
  CH = 400
  for k in range(0, len(traces), CH):
    chunk = traces[k:k + CH]
    res, done, bad = tlc.validate_batch('CacheLin', cfg, ctx.scratch, chunk, workers=4)
    tlc.check_ok(res, what)
    ctx.states += res.distinct
    ctx.transitions += res.generated
    best = {}
    for v in tlc.extract_prints(res.out, 'DONE'):
      fl = set(v[2])
      if v[1] not in best or len(fl) < len(best[v[1]]):
        best[v[1]] = fl
    rejected = [i for i in range(1, len(chunk) + 1) if i not in best]
    info = {}
    if rejected and progress:
      sub = [chunk[i - 1] for i in rejected]
      cfg2 = tlc.cfg_text(spec='Spec', constraints=['Progress'])
      res2, _, _ = tlc.validate_batch('CacheLin', cfg2, ctx.scratch, sub, workers=1)
      far = {}
      for v in tlc.extract_prints(res2.out, 'AT'):
        far[v[1]] = max(far.get(v[1], 0), v[2])
      for j, i in enumerate(rejected):
        at = far.get(j + 1, 1)
        evs = chunk[i - 1]['ev']
        info[i] = dict(stuck_at=at, event=evs[at - 1] if at - 1 < len(evs) else None)
    for i in range(1, len(chunk) + 1):
      if i in best:
        out[k + i - 1] = ('ok', best[i])
      else:
        out[k + i - 1] = ('rejected', info.get(i, {}))
  return out


def nontrivial_key(tr):
  """A trace is non-trivial when an operation of the other thread was in flight during a drain
  or a store (real overlap)."""
  open_ops = set()
  overlap = False
  for e in tr['ev']:
    if e['k'] == 'call':
      if open_ops:
        overlap = True
      open_ops.add(e['t'])
    elif e['k'] == 'ret':
      open_ops.discard(e['t'])
  return overlap


def window_store(tr):
  """True when some store was called between a 'chose' and the return of that drain."""
  in_window = False
  for e in tr['ev']:
    if e['k'] == 'chose' and e['m'] != 0:
      in_window = True
    elif e['k'] == 'ret' and e['op'] == 'drain':
      in_window = False
    elif e['k'] == 'call' and e['op'] == 'store' and in_window:
      return True
  return False


# ---------------------------------------------------------------------------------
# exploration driver shared by C02 / C10 / C17

def explore(ctx, mods, cfg, r_ops, w_ops, bound, nrandom, limit, sink, opcodes=False):
  """Runs the workload under every schedule with <= bound pre-emptions (up to `limit`)
  and `nrandom` random schedules.  sink(trace, origin) collects."""
  def run_once(chooser):
    run = CacheRun(mods, cfg, r_ops, w_ops, opcodes=opcodes)
    tr, log = run.execute(chooser)
    run_once.last = tr
    return log
  n = 0
  exhausted = True
  gen = sched.explore_bounded(run_once, bound, limit=limit, rng=ctx.rng)
  for forced, log in gen:
    n += 1
    sink(run_once.last, dict(cfg=cfg, r_ops=r_ops, w_ops=w_ops, forced=sorted(forced.items()), kind='bounded'))
  if limit is not None and n >= limit:
    exhausted = False
  for i in range(nrandom):
    seed = ctx.rng.randrange(1 << 30)
    import random
    rr = random.Random(seed)
    run_once(sched.random_chooser(rr, switch_p=rr.choice([0.05, 0.15, 0.4])))
    n += 1
    sink(run_once.last, dict(cfg=cfg, r_ops=r_ops, w_ops=w_ops, rseed=seed, kind='random'))
  # lock-release windows: right after the k-th release of the cache lock by one thread, the other thread
  # runs one operation (or all of them) - the windows in which a narrowed lock or a moved statement shows
  holder = {}

  def run_plan(plan):
    run = CacheRun(mods, cfg, r_ops, w_ops, opcodes=opcodes)
    holder['run'] = run
    ch = sched.landmark_chooser(lambda: holder['run'].sched, plan)
    tr, log = run.execute(ch)
    return tr
  for k in range(1, min(2 * len(r_ops) + 2, 10)):
    for plan in ([('R', ('kind', 'release', k)), ('W', ('kind', 'op', 1)), ('R', ('done',)), ('W', ('done',))],
                 [('W', ('kind', 'release', k)), ('R', ('kind', 'op', 1)), ('W', ('done',)), ('R', ('done',))],
                 [('W', ('kind', 'release', k)), ('R', ('done',)), ('W', ('done',))]):
      tr = run_plan(plan)
      n += 1
      sink(tr, dict(cfg=cfg, r_ops=r_ops, w_ops=w_ops, kind='window', plan=[[p[0], list(p[1])] for p in plan]))
  # ... and the unlocked code FOLLOWING a release: the writer runs j more source lines after its k-th release
  # (pop()'s bookkeeping after the lock is dropped), then the storing thread runs one whole operation
  if not cfg.get('coarse'):
    for k in range(1, min(len(w_ops) + 2, 5)):
      for j in range(1, 7):
        for first in (0, 1, 2):       # the storing thread has completed `first` operations before the writer starts
          plan = ([('R', ('kind', 'op', first))] if first else []) + [
            ('W', ('kind', 'release', k)), ('W', ('kind', 'line', j)), ('R', ('kind', 'op', 1)), ('W', ('done',)), ('R', ('done',))]
          tr = run_plan(plan)
          n += 1
          sink(tr, dict(cfg=cfg, r_ops=r_ops, w_ops=w_ops, kind='window', plan=[[p[0], list(p[1])] for p in plan]))
    # ... and the code BEFORE the first release: the writer is j source lines into its drain (emptiness test, the strategy's
    # choice - under the lock or not) when the storing thread runs one whole operation (a new series, a new datapoint)
    for j in range(1, 13):
      for first in (1, 2):
        plan = [('R', ('kind', 'op', first)), ('W', ('kind', 'line', j)), ('R', ('kind', 'op', 1)), ('W', ('done',)), ('R', ('done',))]
        tr = run_plan(plan)
        n += 1
        sink(tr, dict(cfg=cfg, r_ops=r_ops, w_ops=w_ops, kind='window', plan=[[p[0], list(p[1])] for p in plan]))
  return n, exhausted


def rerun(mods, origin):
  """Re-execute an origin record (from a replay file) on the current code."""
  import random
  run = CacheRun(mods, origin['cfg'], [tuple(o) for o in origin['r_ops']], [tuple(o) for o in origin['w_ops']])
  if origin['kind'] == 'bounded':
    ch = sched.forced_chooser(dict((int(s), t) for s, t in origin['forced']))
  elif origin['kind'] == 'window':
    ch = sched.landmark_chooser(lambda: run.sched, [(p[0], tuple(p[1])) for p in origin['plan']])
  else:
    rr = random.Random(origin['rseed'])
    ch = sched.random_chooser(rr, switch_p=rr.choice([0.05, 0.15, 0.4]))
  tr, log = run.execute(ch)
  return tr


class Collector(object):
  def __init__(self):
    self.traces = []
    self.origins = []
    self.seen = {}
    self.runs = 0

  def __call__(self, tr, origin):
    self.runs += 1
    key = json.dumps(tr, sort_keys=True)
    if key in self.seen:
      return
    self.seen[key] = len(self.traces)
    self.traces.append(tr)
    self.origins.append(origin)


# ---------------------------------------------------------------------------------
# spec -> code: Cache.tla behaviours replayed at the specification's atomicity

class ReplayMismatch(Exception):
  pass


def model_constants(strategy, hard=0, lag=0, metrics=2, tss=2, stores=4, drains=3, maxnow=5, history=True):
  return dict(Metrics='{%s}' % ','.join(str(i) for i in range(1, metrics + 1)),
              Tss='{%s}' % ','.join(str(i) for i in range(1, tss + 1)),
              Strategy='"%s"' % strategy, HardC=hard, Lag=lag, MaxStores=stores, MaxDrains=drains,
              MaxNow=maxnow, History='TRUE' if history else 'FALSE')


def replay_behaviour(mods, beh, strategy, hard, lag, flow=False):
  """Steps the real cache through one behaviour of Cache.tla (list of (action, state)).
  Returns (trace, drift list).  Actions: Store, W_Empty, W_Choose, W_Pop, Tick."""
  acts = [(a.split('(')[0], st) for a, st in beh[1:]]
  r_ops = []
  for name, st in acts:
    if name == 'Store':
      m, ts = st['lastArg']
      r_ops.append(('store', 'm%d' % m, ts, st['nstores']))
  ndr = sum(1 for name, st in acts if name == 'W_Empty')
  cfg = dict(strategy=strategy, max=(hard if hard else None), flow=False, lag=lag)
  run = CacheRun(mods, cfg, r_ops, [('drain',)] * ndr, files=())
  # the model's clock starts at 0 and timestamps are small integers
  drift = []
  state = dict(i=0, goal=None)

  def counts():
    nret = sum(1 for e in run.ev if e['k'] == 'ret' and e['op'] == 'drain')
    nch = sum(1 for e in run.ev if e['k'] == 'chose')
    nst = sum(1 for e in run.ev if e['k'] == 'ret' and e['op'] == 'store')
    return nret, nch, nst

  def project():
    c = run.cache
    keyseq = tuple(run.mid(k) for k in c.keys())
    pts = frozenset((run.mid(k), run.tdec(ts), dec(v)) for k, d in c.items() for ts, v in d.items())
    out = dict(keyseq=keyseq, pts=pts, size=c.size)
    if strategy == 'bucketmax':
      b = tuple(tuple(run.mid(x) for x in bk) for bk in c.strategy.buckets)
      out['buckets'] = b
    return out

  def compare(name, st):
    got = project()
    exp = dict(keyseq=tuple(st['keyseq']), pts=frozenset(st['pts']), size=st['size'])
    if strategy == 'bucketmax':
      exp['buckets'] = tuple(tuple(b) for b in st['buckets'])
    if got != exp:
      drift.append('after %s: code %r, spec %r' % (name, got, exp))

  def goal_done(name, st, base):
    nret, nch, nst = counts()
    if name == 'Store':
      return nst > base[2]
    if name == 'W_Empty':
      if st['pcW'] == 'idle':
        return nret > base[0]
      return run.last_kind.get('W') == 'acquire' and run.open_drain
    if name == 'W_Choose':
      if st['pcW'] == 'idle':
        return nret > base[0]
      return nch > base[1] and run.last_kind.get('W') in ('release', 'acquire')
    if name == 'W_Pop':
      return nret > base[0]
    raise Machinery('unknown action %s' % name)

  def chooser(step, enabled, cur):
    while True:
      if state['goal'] is None:
        if state['i'] >= len(acts):
          return cur if cur in enabled else enabled[0]
        name, st = acts[state['i']]
        if name == 'Tick':
          run.clock.now += 1
          state['i'] += 1
          continue
        state['goal'] = (name, st, counts())
        if name == 'W_Choose' and strategy == 'random' and st['chosenM']:
          want = 'm%d' % st['chosenM']
          mods.cache.choice = lambda seq, want=want: want if want in seq else seq[0]
      name, st, base = state['goal']
      if goal_done(name, st, base):
        compare(name, st)
        state['goal'] = None
        state['i'] += 1
        continue
      th = 'R' if name == 'Store' else 'W'
      if th not in enabled:
        raise ReplayMismatch('action %s of the model is not executable on the code: thread %s blocked/finished' % (name, th))
      return th

  orig_build = run.build

  def build():
    orig_build()
    run.clock.now = 0.0
    run.last_kind = {}
    run.open_drain = False
    inner = run.sched.on_point

    def on_point(thread, kind):
      run.last_kind[thread] = kind
      opens = [e for e in run.ev if e['k'] in ('call', 'ret') and e.get('t') == 'W']
      run.open_drain = bool(opens) and opens[-1]['k'] == 'call'
      inner(thread, kind)
    run.sched.on_point = on_point
  run.build = build
  try:
    tr, log = run.execute(chooser)
  except ReplayMismatch as e:
    drift.append(str(e))
    tr = dict(run.trace_meta)
    tr['ev'] = run.ev
    tr['incomplete'] = True
  if state['i'] < len(acts) and not drift:
    drift.append('behaviour not consumed: stopped at action %d of %d' % (state['i'], len(acts)))
  return tr, drift


def model_check(ctx, name, consts, invariants, properties=(), must_cover=('Store', 'W_Empty', 'W_Choose', 'W_Pop'),
                spec='Spec', timeout=900):
  cfg = tlc.cfg_text(spec=spec, constants=consts, invariants=invariants, properties=properties)
  res = tlc.check_ok(tlc.run('Cache', cfg, ctx.scratch, coverage=True, timeout=timeout), name)
  ctx.add_tlc(name, res, must_cover=must_cover if not res.violated else None)
  return res


def simulate_and_replay(ctx, mods, strategy, hard, lag, num, depth, consts=None):
  """TLC -simulate behaviours of Cache.tla replayed on the real cache.  Returns traces."""
  consts = consts or model_constants(strategy, hard=hard, lag=lag, stores=5, drains=4, maxnow=6)
  cfg = tlc.cfg_text(spec='Spec', constants=consts)
  res, behs = tlc.simulate_behaviours('Cache', cfg, ctx.scratch, num=num, depth=depth,
                                      seed=ctx.seed + hash((strategy, hard, lag)) % 1000 + 1)
  tlc.check_ok(res, 'Cache simulate %s' % strategy)
  if len(behs) < num // 2:
    raise Machinery('Cache simulation produced %d behaviours, expected %d' % (len(behs), num))
  out = []
  for beh in behs:
    tr, drift = replay_behaviour(mods, beh, strategy, hard, lag)
    ctx.evaluations += 1
    for d in drift[:1]:
      ctx.note_drift('Cache.tla replay (%s): %s' % (strategy, d))
    if not tr.get('incomplete'):
      out.append((tr, dict(kind='replay', strategy=strategy, hard=hard, lag=lag,
                           actions=[a for a, _ in beh[1:]], drift=drift[:2])))
  return out
