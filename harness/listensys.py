"""Connection admission on the metric listeners (Listen.tla): the real CarbonReceiverFactory.buildProtocol,
MetricReceiver.connectionMade / connectionLost and checkIfAcceptingConnections with stand-in listening ports."""
from twisted.internet.address import IPv4Address
from twisted.internet.error import ConnectionDone, ConnectionLost
from twisted.internet.testing import StringTransport
from twisted.python.failure import Failure

from . import wiresys, tlc
from .core import Machinery


class Port(object):
  """what checkIfAcceptingConnections needs of a listening port; `producing` is what the port really does"""
  def __init__(self):
    self.paused = False
    self.producing = True

  def pauseProducing(self):
    self.producing = False

  def resumeProducing(self):
    self.producing = True


def model(ctx):
  for mx, np_ in ((1, 1), (2, 2)):
    cfg = tlc.cfg_text(spec='Spec', constants=dict(Mode='"model"', NC=3, NP=np_, Max=mx),
                       invariants=['TypeOK', 'WithinLimit', 'PortsFollow', 'RefusedOnlyAtLimit'])
    res = tlc.check_ok(tlc.run('Listen', cfg, ctx.scratch, coverage=True), 'Listen model')
    ctx.add_tlc('Listen[max=%d,ports=%d]' % (mx, np_), res, must_cover=None if res.violated else ['Connect', 'Disconnect'])
    if res.violated:
      raise Machinery('Listen.tla violates %s' % res.violated)


def runs(ctx, wm, rng, n, nevents):
  out = {}
  for k in range(n):
    mx = rng.choice([1, 2, 3])
    np_ = rng.choice([1, 2])
    wm.settings['MAX_RECEIVER_CONNECTIONS'] = mx
    wm.settings['USE_FLOW_CONTROL'] = False
    ports = [Port() for _ in range(np_)]
    saved_ports = list(wm.state.listeningPorts)
    wm.state.listeningPorts[:] = ports
    wm.state.connectedMetricReceiverProtocols.clear()
    factory = wm.protocols.CarbonReceiverFactory()
    factory.protocol = rng.choice([wm.protocols.MetricLineReceiver, wm.protocols.MetricPickleReceiver])
    live = {}
    ev = []
    try:
      for _ in range(nevents):
        if live and rng.random() < 0.45:
          c = rng.choice(sorted(live))
          p = live.pop(c)
          p.connectionLost(Failure(rng.choice([ConnectionDone(), ConnectionLost()])))
          e = dict(e='disconnect', c=c, accepted=1)
        else:
          c = min(set(range(1, 8)) - set(live))
          p = factory.buildProtocol(IPv4Address('TCP', '127.0.0.1', 40000 + c))
          if p is not None:
            p.makeConnection(StringTransport())
            live[c] = p
          e = dict(e='connect', c=c, accepted=1 if p is not None else 0)
        e['n'] = len(wm.state.connectedMetricReceiverProtocols)
        e['paused'] = [0 if pt.producing else 1 for pt in ports]
        ev.append(e)
        ctx.evaluations += 1
    finally:
      wm.state.listeningPorts[:] = saved_ports
      wm.state.connectedMetricReceiverProtocols.clear()
      wm.settings['MAX_RECEIVER_CONNECTIONS'] = float('inf')
    out.setdefault((mx, np_), []).append(dict(ev=ev, max=mx, ports=np_))
  return out


def judge(ctx, groups):
  """returns list of (trace, flags)"""
  res_all = []
  for (mx, np_), traces in sorted(groups.items()):
    cfg = tlc.cfg_text(spec='Spec', constants=dict(Mode='"trace"', NC=7, NP=np_, Max=mx), constraints=['Report'])
    res, done, bad = tlc.validate_batch('Listen', cfg, ctx.scratch, traces, workers=2)
    tlc.check_ok(res, 'Listen traces')
    ctx.states += res.distinct
    ctx.transitions += res.generated
    got = {}
    for v in tlc.extract_prints(res.out, 'DONE'):
      got[v[1]] = set()
    for v in tlc.extract_prints(res.out, 'F'):
      got.setdefault(v[1], set()).add(v[2])
    if len(got) != len(traces):
      raise Machinery('Listen: %d of %d traces judged\n%s' % (len(got), len(traces), res.out[-2000:]))
    for i, t in enumerate(traces):
      res_all.append((t, got[i + 1]))
  return res_all


def section(ctx, violate=False):
  model(ctx)
  wm = wiresys.WireModules(ctx.scratch)
  groups = runs(ctx, wm, ctx.rng, ctx.pick(40, 400), ctx.pick(14, 30))
  verdicts = judge(ctx, groups)
  nlim = 0
  for t, fl in verdicts:
    if any(e['accepted'] == 0 for e in t['ev']):
      nlim += 1
    for f in sorted(fl):
      if violate and f in ('ports', 'admission'):
        # a listener that stays closed below the limit (or refuses below it) cannot be sent datapoints at all
        ctx.violation('connection admission: %s - clients that connect while fewer than MAX_RECEIVER_CONNECTIONS are '
                      'connected cannot deliver their datapoints' % ('a listening port is paused / not paused contrary to the number of connected clients'
                                                                       if f == 'ports' else 'a connection was refused below the limit or accepted at it'),
                      dict(MAX_RECEIVER_CONNECTIONS=t['max'], ports=t['ports'], events=t['ev'][:20]), signature='listen:' + f)
        continue
      ctx.note_drift('connection admission (MAX_RECEIVER_CONNECTIONS=%d, %d ports): %s differs from Listen.tla; events %s'
                     % (t['max'], t['ports'], f, [(e['e'], e['c'], e['accepted'], e['n'], e['paused']) for e in t['ev'][:12]]))
  ctx.cov['listen_runs'] = len(verdicts)
  ctx.cov['listen_runs_reaching_the_limit'] = nlim
  import copy
  t0 = next((t for t, fl in verdicts if not fl and any(e['accepted'] == 0 for e in t['ev'])), None)
  if t0 is None:
    if ctx.drift or ctx.violations:
      return            # every run at the limit deviates already
    raise Machinery('Listen: no run reached the connection limit')
  t0 = copy.deepcopy(t0)
  for e in t0['ev']:
    if e['accepted'] == 0:
      e['accepted'] = 1
      e['n'] += 1
      break
  v = judge(ctx, {(t0['max'], t0['ports']): [t0]})
  ctx.negative_control('Listen: a refused connection recorded as accepted', bool(v[0][1] & {'admission', 'over-limit'}))
