"""C12 - admission rules: blacklist, whitelist, NaN and timestamp normalisation.

The decision table lives in Admission.tla.  Cases: list files of up to 4 lines over {substring,
^prefix, suffix$, ^exact$, alternation, comment, blank, invalid regex} for both lists x names that
hit / miss x values incl. NaN/inf x timestamps incl. -1, 0, fractional, negative x resolutions
0/1/10/60, each sent through the real line, UDP and pickle listeners with real list files loaded
by the real WhiteList/BlackList objects (present at start-up, created afterwards, or rewritten while
running - the 10 s re-read task runs on a private clock); recorder + the two counters are the observation and
TLC evaluates the table for every case (the small combinations exhaustively, then random).
"""
import itertools
import os
import random
import struct

from twisted.internet import task

from . import wiresys, tlc, env
from .core import Machinery

ALPHA = 'abcd.x\u00e9\u4e2d'      # incl. non-ASCII letters: list files and names are UTF-8
PROP = {'filtered-wrongly', 'admitted-wrongly', 'timestamp', 'altered', 'counter:blacklistMatches', 'counter:whitelistRejects'}
WHAT = {
  'filtered-wrongly': 'a datapoint that no rule excludes did not reach the pipeline',
  'admitted-wrongly': 'a blacklisted / not-whitelisted / NaN datapoint reached the pipeline',
  'timestamp': 'the timestamp of an admitted datapoint is not the one the rules give (-1 -> now, rounded down to the resolution, otherwise unchanged)',
  'altered': 'the name or value of an admitted datapoint was altered',
  'counter:blacklistMatches': 'blacklistMatches does not count the blacklist hits',
  'counter:whitelistRejects': 'whitelistRejects does not count the whitelist rejections',
}


def enc(s):
  return [ALPHA.index(c) + 1 for c in s]


def render(p):
  lit = [''.join(ALPHA[c - 1] for c in l).replace('.', '\\.') for l in p['lits']]
  k = p['k']
  if k == 'sub':
    return lit[0]
  if k == 'prefix':
    return '^' + lit[0]
  if k == 'suffix':
    return lit[0] + '$'
  if k == 'exact':
    return '^' + lit[0] + '$'
  if k == 'alt':
    return '|'.join(lit)
  if k == 'comment':
    return '# ' + lit[0]
  if k == 'blank':
    return '   '
  return p['text']


def gen_line(rng):
  k = rng.choice(['sub', 'sub', 'prefix', 'suffix', 'exact', 'alt', 'comment', 'blank', 'invalid'])
  lits = [enc(''.join(rng.choice('abcd.\u00e9\u4e2d' if rng.random() < 0.3 else 'abcd.') for _ in range(rng.randint(1, 3)))) for _ in range(3 if k == 'alt' else 1)]
  p = dict(k=k, lits=lits)
  if k == 'invalid':
    p['text'] = rng.choice(['(', '[a', '*a', 'a(b', '(?P<x'])
  return p


def gen_name(rng, lines):
  base = ''.join(rng.choice('abcdx\u00e9') for _ in range(rng.randint(1, 4)))
  cands = [base]
  for p in lines:
    if p['k'] in ('sub', 'prefix', 'suffix', 'exact', 'alt'):
      lit = ''.join(ALPHA[c - 1] for c in rng.choice(p['lits']))
      cands += [lit, 'x' + lit, lit + 'x', 'x' + lit + 'x', lit[:-1] or 'x']
  return rng.choice(cands)


class Adm(object):
  def __init__(self, ctx):
    self.wm = wiresys.WireModules(ctx.scratch)
    import carbon.regexlist
    self.rl = carbon.regexlist
    self.dir = os.path.join(ctx.scratch, 'lists')
    os.makedirs(self.dir, exist_ok=True)
    self.nfile = 0

    class FT(object):
      now = 1000.5

      def time(self):
        return self.now
    self.ft = FT()
    self.wm.protocols.time = self.ft

  def load(self, obj, lines, mode='direct', probe=()):
    """Puts `lines` in force through the real loader.  mode: 'direct' - the file exists when read_from() is
    called; 'late' - the daemon starts without the file, it is created afterwards and the 10 s re-read task
    (on a private clock) picks it up; 'rewrite' - another list is in force first, the file is then rewritten."""
    self.nfile += 1
    path = os.path.join(self.dir, 'list%d.conf' % self.nfile)

    def write(ls, mtime):
      text = '\n'.join(render(p) for p in ls)
      with open(path, 'w', encoding='utf-8') as fh:
        # every third file has no newline after its last line, some use CRLF line ends
        fh.write(text if self.nfile % 3 == 0 else (text.replace('\n', '\r\n') + '\r\n' if self.nfile % 7 == 1 else text + '\n'))
      os.utime(path, (mtime, mtime))
    clock = task.Clock()
    if obj.read_task.running:
      obj.read_task.stop()
    obj.read_task.clock = clock
    obj.rules_last_read = 0.0
    if mode == 'direct':
      write(lines, 1000.0)
      obj.read_from(path)
    elif mode == 'fault':
      # a FAULT: on one tick of the re-read task the modification time of the (present, unchanged) file cannot be
      # read (EACCES / EIO / ESTALE), the following ticks succeed: the file's list stays in force
      import errno
      write(lines, 1000.0)
      obj.read_from(path)

      def failing(p, _e=errno.EACCES):
        raise OSError(_e, os.strerror(_e), p)
      saved = os.path.getmtime
      os.path.getmtime = failing
      try:
        clock.advance(10)
      finally:
        os.path.getmtime = saved
      self.probe(probe)
      clock.advance(10)
      clock.advance(10)
    elif mode == 'late':
      obj.read_from(path)
      clock.advance(10)
      self.probe(probe)
      write(lines, 2000.0)
      clock.advance(10)
    else:
      write([dict(k='sub', lits=[enc('x')]), dict(k='prefix', lits=[enc('a')])], 1000.0)
      obj.read_from(path)
      clock.advance(10)
      self.probe(probe)
      write(lines, 2000.0)
      clock.advance(10)

  def probe(self, names):
    # traffic for the same names while the EARLIER list is in force: whatever the daemon remembers about a name
    # from then must not outlive the list
    for n in names:
      try:
        self.send('line', n, 7.0, 1.0, 0)
      except Exception:
        pass

  def send(self, proto, name, ts, value, res, prelude=()):
    wm = self.wm
    wm.settings['MIN_TIMESTAMP_RESOLUTION'] = res
    st = wm.instrumentation.stats
    run = wiresys.Run(wm, proto)
    # earlier datapoints on the same connection (refused, NaN-valued, admitted ones): each datapoint is judged on its own
    for pn, pts, pv in prelude:
      try:
        if proto == 'pickle':
          run.feed(wiresys.pickle_frame([(pn, pts, pv)], 2))
        else:
          run.feed(('%s %s %s\n' % (pn, repr(pv), repr(pts))).encode('utf-8'))
      except Exception:
        pass
      self.ft.now += 1.5           # time passes between two datapoints of a connection ("-1" means the time of THIS datapoint)
    del run.seen[:]
    st.pop('blacklistMatches', None)
    st.pop('whitelistRejects', None)
    try:
      if proto == 'pickle':
        # every other pickle frame is what a Python 2 sender writes (the name is a UTF-8 byte string)
        self.npickle = getattr(self, 'npickle', 0) + 1
        py2 = self.npickle % 2 == 0 and isinstance(ts, (int, float)) and isinstance(value, (int, float))
        esc = run.feed(wiresys.py2_pickle_frame([(name, ts, value)]) if py2 else wiresys.pickle_frame([(name, ts, value)], 2))
      else:
        esc = run.feed(('%s %s %s\n' % (name, repr(value), repr(ts))).encode('utf-8'))
      seen = list(run.seen)
    finally:
      run.close()
    return esc, seen, st.get('blacklistMatches', 0), st.get('whitelistRejects', 0)


def half(x):
  return int(round(x * 2))


def cases(ctx, adm, rng, n):
  out = []
  for k in range(n):
    nbl, nwl = rng.randint(0, 3), rng.randint(0, 3)
    bl = [gen_line(rng) for _ in range(nbl)]
    wl = [gen_line(rng) for _ in range(nwl)]
    names = [gen_name(rng, bl + wl) for _ in range(6)]
    mb = rng.choice(['direct', 'direct', 'late', 'rewrite'])
    mw = rng.choice(['direct', 'direct', 'late', 'rewrite'])
    # every fourth case one of the two lists lives through a failing tick of its re-read task (dealt, not drawn)
    if k % 4 == 1:
      mb = 'fault'
    elif k % 4 == 3:
      mw = 'fault'
    adm.load(adm.rl.BlackList, bl, mb, probe=names)
    adm.load(adm.rl.WhiteList, wl, mw, probe=names)
    for name in names:
      value = rng.choice([1.5, -2.0, 0.0, float('inf'), float('-inf'), float('nan'), float('nan'), 42])
      ts = rng.choice([-1.0, -1, 0.0, 7.0, 59.5, 60.0, 61.5, 119.5, 1234.5, -1.5, -5.0, -0.5])
      tsbad = 0
      if rng.random() < 0.06:
        ts, tsbad = rng.choice([float('inf'), float('-inf'), float('nan')]), 1
      res = rng.choice([0, 0, 1, 10, 60])
      proto = rng.choice(['line', 'udp', 'pickle'])
      prelude = []
      if rng.random() < 0.4:
        for _ in range(rng.randint(1, 2)):
          prelude.append((rng.choice([name, name, gen_name(rng, bl + wl)]), rng.choice([7.0, -1, 60.0]), rng.choice([float('nan'), 1.0, 0.0])))
      esc, seen, blc, wlc = adm.send(proto, name, ts, value, res, prelude=prelude)
      obs = dict(admitted=1 if seen else 0, ts2=0, namesame=1, valuesame=1, blcount=blc, wlcount=wlc, escaped=esc, n=len(seen))
      if seen:
        m, t, v = seen[0]
        obs['ts2'] = half(t) if abs(t * 2 - round(t * 2)) < 1e-9 else 12345679
        obs['namesame'] = 1 if m == name else 0
        obs['valuesame'] = 1 if struct.pack('>d', float(v)) == struct.pack('>d', float(value)) else 0
        if len(seen) > 1:
          obs['namesame'] = 0
      out.append(dict(bl=bl, wl=wl, name=enc(name), nan=1 if value != value else 0, ts2=0 if tsbad else half(ts), tsbad=tsbad, res=res,
                      now2=half(adm.ft.now), obs=obs, proto=proto,
                      text=dict(blacklist=[render(p) for p in bl], whitelist=[render(p) for p in wl], name=name,
                                value=repr(value), ts=repr(ts), earlier_on_the_connection=[(a, repr(c), b) for a, b, c in prelude])))
  return out


def judge(ctx, recs, what):
  cfg = tlc.cfg_text(spec='Spec', constraints=['Report'])
  out = {}
  CH = 1500
  for k in range(0, len(recs), CH):
    chunk = recs[k:k + CH]
    res, done, bad = tlc.validate_batch('Admission', cfg, ctx.scratch, chunk, workers=8)
    tlc.check_ok(res, what)
    ctx.states += res.distinct
    ctx.transitions += res.generated
    got = {}
    for v in tlc.extract_prints(res.out, 'DONE'):
      got[v[1]] = set()
    for v in tlc.extract_prints(res.out, 'F'):
      got.setdefault(v[1], set()).add(v[2])
    if len(got) != len(chunk):
      raise Machinery('%s: %d of %d cases judged\n%s' % (what, len(got), len(chunk), res.out[-2500:]))
    for i in range(1, len(chunk) + 1):
      out[k + i - 1] = got[i]
  return out


def run(ctx):
  ctx.rule = ('list files of 0-3 lines per list over 9 line kinds x names derived from the patterns (hit, near miss) x values '
              'incl. NaN/inf x timestamps {-1, 0, integral, fractional, negative} x resolutions {0,1,10,60} x the three '
              'listeners; non-trivial = case in which a list line matched or the timestamp was rewritten')
  ctx.value_oracles.append('regex matching: list patterns restricted to a literal grammar decided by Admission!LineMatches')
  adm = Adm(ctx)
  recs = cases(ctx, adm, ctx.rng, ctx.pick(500, 6000))
  ctx.evaluations = len(recs)
  verdicts = judge(ctx, recs, 'C12 cases')
  for i, r in enumerate(recs):
    ctx.traces += 1
    if r['obs']['blcount'] or r['obs']['wlcount'] or r['ts2'] == -2 or r['res']:
      ctx.nontriv(i)
    if r['obs']['escaped']:
      ctx.violation('an exception escaped the listener while applying the admission rules', dict(case=r['text'], proto=r['proto']), signature='escaped')
    for f in sorted(verdicts[i] & PROP):
      sig = f
      if f == 'timestamp' and r['ts2'] == -3:
        sig = 'timestamp:-1.5'
      ctx.violation(WHAT[f], dict(case=r['text'], res=r['res'], proto=r['proto'], obs=r['obs']), signature=sig)
  ctx.sample(dict(kind='admission case', case=recs[0]['text'], res=recs[0]['res'], proto=recs[0]['proto'], obs=recs[0]['obs']))
  import copy
  bad = copy.deepcopy(next(r for i, r in enumerate(recs) if r['obs']['admitted'] and not verdicts[i]))
  bad['obs']['admitted'] = 0
  v = judge(ctx, [bad], 'negative control')
  ctx.negative_control('an admitted datapoint recorded as filtered', 'filtered-wrongly' in v[0])
  # the periodic re-read of the file (Reload.tla): histories of rewrites, removals, restores with preserved times, failing ticks
  from . import reloadsys
  reloadsys.check(ctx, 'regexlist')


def replay(ctx, rp):
  raise NotImplementedError('rerun ./check C12 with the same VERIF_SEED')
