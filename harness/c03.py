"""C03 - the writer persists each drained datapoint exactly once or accounts for it.

A. TLC: Writer.tla (pc machine of writeCachedDataPoints/writeForever, storing thread,
   backend calls that may raise, create limiting) - NoDoubleWrite, NoRewriteAfterError,
   WriteOnlyExisting, NoSilentDiscard, FateWritten, Counters.
D. Executions at lock/backend-call granularity are also validated against Writer.tla itself
   (Writer_Trace.tla: logged events matched to actions, silent writer steps inserted by TLC).
B/C. The real writeForever() runs under the line-level scheduler against real stores, an
   in-memory database plugin with a fault script (every single-fault placement, then pairs),
   the real counters and the twisted error log; WriterLin.tla judges every trace.
"""
from . import writersys, writercheck, cachesys, tlc
from .core import Machinery

INVS = ['TypeOK', 'NoDoubleWrite', 'NoRewriteAfterError', 'WriteOnlyExisting', 'NoSilentDiscard', 'FateWritten',
        'Counters', 'HeldAccounted']


def plan(ctx):
  limits = [(None, None, None), (60, 50, None)]
  if not ctx.quick:
    limits += [(None, 2, None), (120, None, 100)]
  return limits


def run(ctx):
  ctx.rule = ('workloads of 4-6 stores over 3 metrics (one pre-existing file), six strategies, create/update limits '
              'on/off; schedules: all with <= k pre-emptions at line granularity over writer.py+cache.py, then random; '
              'fault scripts: every single failing backend call of the default schedule, then random scripts of <= 2-3 '
              'faults; non-trivial = stores interleaved between backend calls or at least one injected fault')
  ctx.assumptions += ['the in-memory TimeSeriesDatabase plugin stands for Whisper/Ceres (not installed)',
                      'log.err() in writeForever counts as "reported as an error" (property observation list)']
  for i, (cl, lag) in enumerate([('FALSE', 'FALSE'), ('TRUE', 'FALSE'), ('FALSE', 'TRUE')]):
    consts = dict(Metrics='{1,2}', Tss='{1,2}', MaxStores=ctx.pick(3, 4 if i == 0 else 3), MaxFaults=2, CreateLimit=cl, LagConfigured=lag,
                  PreExisting='{1}', FinalPass='TRUE', WithStop='FALSE')
    res = writercheck.model_check(ctx, 'Writer#%d' % i, consts, INVS,
                                  must=('Store', 'W_Test', 'W_PassTop', 'W_CreateLoop', 'W_Exists1', 'W_Create',
                                        'W_Choose', 'W_Pop', 'W_Exists2', 'W_Write', 'W_Sleep'))
    if res.violated:
      raise Machinery('Writer.tla violates %s' % res.violated)
  wm = writersys.WriterModules(ctx.scratch)
  col = writercheck.Collector()
  for lim in plan(ctx):
    wm.configure(*lim)
    for si, st in enumerate(cachesys.STRATEGIES):
      if ctx.quick and (si + (0 if lim[0] is None else 1)) % 2:
        continue
      cfg = dict(strategy=st, lag=0, buckets=wm.buckets, frac=(si % 2 == 0))     # every other strategy: fractional float timestamps
      cfg['res'] = [10, 0, 1][si % 3]
      cfg['log_updates'], cfg['log_creates'] = bool(si % 2), bool(si % 3 == 0)      # LOG_UPDATES / LOG_CREATES in all four combinations
      if si % 4 < 2:
        # names with empty path components next to the name they would "clean up" to: three different metrics
        cfg['alias'] = {'m1': 'srv..cpu', 'm2': 'srv.cpu', 'm3': '.srv.cpu.'}
      r_ops, _ = cachesys.gen_workload(ctx.rng, nmetrics=3, nts=2, nstores=ctx.pick(4, 6), ndrains=0, nqueries=0)
      if cfg['frac'] and not any(sum(1 for o in r_ops if o[0] == 'store' and o[1] == 'm%d' % m_ and o[2] == t_) for m_ in (1, 2, 3) for t_ in (1, 2)
                                 if all(any(o[0] == 'store' and o[1] == 'm%d' % m_ and o[2] == t2 for o in r_ops) for t2 in (1, 2))):
        # make sure some series gets two different sub-second timestamps of one second (whatever the seed drew)
        nid = max(o[3] for o in r_ops if o[0] == 'store')
        r_ops = list(r_ops) + [('store', 'm1', 1, nid + 1), ('store', 'm1', 2, nid + 2)]
      pre = ('m1',)
      # default schedule without faults tells how many backend calls there are
      # the storing thread parked right before taking the cache lock for its k-th store while the writer drains
      plans = [[('R', ('kind', 'acquire', k)), ('W', ('kind', 'release', wrel)), ('R', ('done',)), ('S', ('done',)), ('W', ('done',))]
               for k in range(2, len(r_ops) + 1) for wrel in (2, 4)]
      n = writercheck.explore(ctx, wm, cfg, r_ops, set(), pre, bound=ctx.pick(1, 2), nrandom=ctx.pick(10, 60),
                              limit=ctx.pick(70, 600), sink=col, plans=plans)
      ctx.evaluations += n
      ncalls = max(1, sum(1 for e in col.traces[-1]['ev'] if e['k'] == 'db'))
      for f in range(min(ncalls, ctx.pick(8, 14))):
        n = writercheck.explore(ctx, wm, cfg, r_ops, {f}, pre, bound=0, nrandom=ctx.pick(2, 8), limit=20, sink=col)
        ctx.evaluations += n
      for _ in range(ctx.pick(3, 24)):
        k = ctx.rng.choice([2, 2, 3])
        fs = set(ctx.rng.sample(range(ncalls + 2), min(k, ncalls + 2)))
        n = writercheck.explore(ctx, wm, cfg, r_ops, fs, pre, bound=0, nrandom=ctx.pick(2, 6), limit=10, sink=col)
        ctx.evaluations += n
  plugin_glue(ctx)
  # the counters themselves: what was counted is published by the self-metrics report or still in the current interval
  from . import instrsys
  instrsys.section(ctx, 'C03', 'carbon-cache')
  # beyond the listed property: the tag registration queue the writer feeds (TagQueue.tla; deviations = drift)
  from . import tagsys
  wm.configure(None, None, None)
  tagsys.section(ctx, wm.writer)
  writercheck.conformance(ctx, wm, col, nworkloads=ctx.pick(4, 12), nrandom=ctx.pick(15, 50), limit=ctx.pick(60, 300))
  verdicts = writersys.judge(ctx, col.traces, 'C03 traces')
  writercheck.report(ctx, col, verdicts, 'C03')
  writercheck.negative_controls(ctx, col, verdicts)
  ctx.cov['distinct_recorded_traces'] = len(col.traces)
  k = next((i for i, t in enumerate(col.traces) if any(e['k'] == 'db' and not e['ok'] for e in t['ev'])), 0)
  ctx.sample(dict(kind='recorded writer execution with an injected fault', origin={x: y for x, y in col.origins[k].items() if x != 'cfg'},
                  events=[e for e in col.traces[k]['ev'] if e['k'] != 'cnt'][:18]))


def plugin_glue(ctx):
  """the writer can only account for a failed write if the database plugin lets the failure through: the real
  WhisperDatabase / CeresDatabase glue over stand-in libraries whose calls fail in various ways"""
  import errno
  import os
  import carbon.database as cdb
  import whisper as wstub
  from . import env
  settings = env.bootstrap(ctx.scratch)
  root = os.path.join(ctx.scratch, 'glue-data')
  os.makedirs(root, exist_ok=True)
  settings['LOCAL_DATA_DIR'] = root
  for kk in ('WHISPER_AUTOFLUSH', 'WHISPER_SPARSE_CREATE', 'WHISPER_FALLOCATE_CREATE', 'WHISPER_LOCK_WRITES', 'WHISPER_FADVISE_RANDOM'):
    settings[kk] = False
  db = cdb.WhisperDatabase(settings)

  class Corrupt(Exception):
    pass
  failures = [IOError(errno.ENOENT, 'No such file or directory'), IOError(errno.EACCES, 'Permission denied'), OSError(errno.ENOSPC, 'No space left'),
              Corrupt('corrupt file'), ValueError('bad archive'), KeyError('x')]
  orig_update, orig_create = wstub.update_many, wstub.create
  try:
    for exc in failures:
      for op in ('write', 'create'):
        def boom(*a, **k):
          raise exc
        wstub.update_many, wstub.create = (boom, orig_create) if op == 'write' else (orig_update, boom)
        ctx.evaluations += 1
        try:
          if op == 'write':
            db.write('glue.m1', [(1000, 1.0), (1060, 2.0)])
          else:
            db.create('glue.m%d' % ctx.evaluations, [(60, 10)], 0.5, 'average')
          swallowed = True
        except BaseException as e:
          swallowed = e is not exc and not isinstance(e, type(exc))
        if swallowed:
          ctx.violation('the whisper plugin swallowed a failing backend %s (%r): the writer counts the datapoints as written / the file as '
                        'created, nothing is persisted and nothing is reported' % (op, exc), dict(op=op, failure=repr(exc)), signature='glue-swallowed')
  finally:
    wstub.update_many, wstub.create = orig_update, orig_create


def replay(ctx, rp):
  wm = writersys.WriterModules(ctx.scratch)
  tr = writercheck.rerun(wm, rp['replay']['origin'])
  col = writercheck.Collector()
  col(tr, rp['replay']['origin'])
  ctx.evaluations = 1
  writercheck.report(ctx, col, writersys.judge(ctx, col.traces, 'replay'), 'C03')
