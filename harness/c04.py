"""C04 - an orderly shutdown writes out everything that was accepted.

A. TLC: Writer.tla with the stop (StopBefore = the 'before shutdown' trigger, StopDuring =
   reactor.running := False) enabled in every state - FlushOnExit.
B/C. The real writeForever() and the real shutdownModifyUpdateSpeed() run under the
   line-level scheduler with a third thread delivering the stop; every placement of the stop
   relative to the writer loop and the stores reachable with <= k pre-emptions, then random
   placements; strategies x MIN_TIMESTAMP_LAG x rate limits with/without
   MAX_UPDATES_PER_SECOND_ON_SHUTDOWN.  WriterLin.tla flags 'unflushed'.
"""
from . import writersys, writercheck, cachesys, tlc
from .core import Machinery

INVS = ['TypeOK', 'NoSilentDiscard', 'FlushOnExit']


def run(ctx):
  ctx.rule = ('workloads of 3-5 stores; a stop thread calls the real shutdownModifyUpdateSpeed() and then clears '
              'reactor.running; all schedules with <= k pre-emptions at line granularity (writer.py + cache.py) plus '
              'random ones; non-trivial = the stop arrived while datapoints were cached or in the writer\'s hands')
  ctx.assumptions += ['Twisted joins the thread pool after clearing reactor.running (checked in twisted.internet.base)',
                      'backend faults are not injected here (C03 does); create/write failures are accounted, an exists() '
                      'failure aborts a pass by design']
  for i, (cl, lag) in enumerate([('FALSE', 'FALSE'), ('TRUE', 'FALSE'), ('FALSE', 'TRUE')]):
    consts = dict(Metrics='{1,2}', Tss='{1,2}', MaxStores=ctx.pick(3, 4), MaxFaults=0, CreateLimit=cl, LagConfigured=lag,
                  PreExisting='{1}', FinalPass='TRUE', WithStop='TRUE')
    res = writercheck.model_check(ctx, 'Writer+stop#%d' % i, consts, INVS,
                                  must=('Store', 'StopBefore', 'StopDuring', 'W_Test', 'W_PassTop', 'W_Choose', 'W_Pop',
                                        'W_Write', 'W_Sleep'))
    if res.violated:
      raise Machinery('Writer.tla violates %s; counter-example: %s' % (res.violated, [a for a, _ in res.cex]))
  # the repaired defect F5 stays reachable in the model of the unrepaired loop (documentation of the witness)
  consts = dict(Metrics='{1}', Tss='{1}', MaxStores=1, MaxFaults=0, CreateLimit='FALSE', LagConfigured='FALSE',
                PreExisting='{1}', FinalPass='FALSE', WithStop='TRUE')
  cfg = tlc.cfg_text(spec='Spec', constants=consts, invariants=['FlushOnExit'])
  res = tlc.check_ok(tlc.run('Writer', cfg, ctx.scratch), 'F5 witness')
  ctx.cov['F5_model_witness'] = [a for a, _ in res.cex]

  wm = writersys.WriterModules(ctx.scratch)
  col = writercheck.Collector()
  limits = [(None, None, None), (60, 4, 50), (60, 4, None), (None, 1, None)]      # the last: every write after the first waits for a token
  if not ctx.quick:
    limits += [(None, 2, 100), (30, None, None)]
  for lim in limits:
    wm.configure(*lim)
    for si, st in enumerate(cachesys.STRATEGIES):
      lags = [0, 5] if st == 'timesorted' else [0]
      if ctx.quick and lim != limits[0] and si % 3 != limits.index(lim) % 3:
        continue
      for lag in lags:
        li = limits.index(lim)
        cfg = dict(strategy=st, lag=lag, buckets=wm.buckets)
        cfg['log_updates'], cfg['log_creates'] = (si + li) % 2 == 0 or li == 3, (si + li) % 3 == 0
        if (si + li) % 3 == 1:
          # names a pickle client can send: the empty name, and names that differ in empty path components only
          cfg['alias'] = {'m1': 'srv..cpu', 'm2': ''}
        r_ops, _ = cachesys.gen_workload(ctx.rng, nmetrics=3 if li == 3 else 2, nts=2, nstores=ctx.pick(4, 5) if li == 3 else ctx.pick(3, 5), ndrains=0, nqueries=0)
        if (si + limits.index(lim)) % 3 == 0:
          # a bulk cache query (cached and never-cached series) right after the first store
          r_ops.insert(1, ('bulkquery', ['m9', r_ops[0][1], 'm8']))
        # stop-placement sweeps: the writer runs a steps, then all stores, then the stop (and the
        # same with the stores first): every program point of the writer loop is a stop position
        stride = ctx.pick(2, 1)
        segs = [[('W', a), ('R', None), ('S', None), ('W', None)] for a in range(0, ctx.pick(70, 140), stride)]
        segs += [[('R', None), ('W', a), ('S', None), ('W', None)] for a in range(0, ctx.pick(90, 260), stride + 1)]
        segs += [[('W', a), ('R', None), ('S', 2), ('W', 3), ('S', None), ('W', None)] for a in range(0, 40, 3)]
        # the storing thread has stored its first datapoint; the writer is a steps into its pass (choosing, sorting,
        # popping) when the remaining stores - new metrics among them - arrive; then the stop
        segs += [[('R', 22), ('W', a), ('R', None), ('S', None), ('W', None)] for a in range(0, ctx.pick(70, 120), stride)]
        # every other configuration has a series whose file does not exist yet (create + tag registration on the way)
        pre = ('m1', 'm2') if (si + limits.index(lim)) % 2 else ('m1',)
        # the storing thread is parked right before it takes the cache lock for its k-th store (whatever it looked up
        # before is then stale); the writer drains once or twice; the store completes; then the stop
        plans = [[('R', ('kind', 'acquire', k)), ('W', ('kind', 'release', wrel)), ('R', ('done',)), ('S', ('done',)), ('W', ('done',))]
                 for k in range(2, len(r_ops) + 1) for wrel in (2, 4)]
        n = writercheck.explore(ctx, wm, cfg, r_ops, set(), pre, bound=ctx.pick(1, 2),
                                nrandom=ctx.pick(10, 100), limit=ctx.pick(40, 500), sink=col, segments=segs, plans=plans)
        ctx.evaluations += n
        # one write() of the flush fails (OSError / a backend-specific exception): the failure is counted and reported and
        # every other series is still flushed before the thread exits
        if lag == 0:
          for f in range(0, ctx.pick(3, 5)):
            n = writercheck.explore(ctx, wm, dict(cfg, fault_writes=True), r_ops, {f}, pre, bound=0, nrandom=ctx.pick(1, 4), limit=2, sink=col,
                                    segments=[[('R', None), ('S', None), ('W', None)], [('R', None), ('W', 30), ('S', None), ('W', None)]])
            ctx.evaluations += n
  verdicts = writersys.judge(ctx, col.traces, 'C04 traces')
  for i, tr in enumerate(col.traces):
    ks = [e['k'] for e in tr['ev']]
    if 'stopBefore' in ks:
      sb = ks.index('stopBefore')
      stored_before = sum(1 for k in ks[:sb] if k == 'stored')
      written_before = sum(len(e['pts']) for e in tr['ev'][:sb] if e['k'] == 'db' and e['op'] == 'write')
      if stored_before > written_before:
        ctx.cov['stop_with_data_pending'] = ctx.cov.get('stop_with_data_pending', 0) + 1
        ctx.nontriv(('pending', i))
  writercheck.report(ctx, col, verdicts, 'C04')
  ctx.nontrivial_extra = 0
  writercheck.negative_controls(ctx, col, verdicts)
  ctx.cov['distinct_recorded_traces'] = len(col.traces)
  ctx.sample(dict(kind='recorded shutdown execution', origin={x: y for x, y in col.origins[-1].items() if x != 'cfg'},
                  events=[e for e in col.traces[-1]['ev'] if e['k'] != 'cnt'][:18]))


def replay(ctx, rp):
  wm = writersys.WriterModules(ctx.scratch)
  tr = writercheck.rerun(wm, rp['replay']['origin'])
  col = writercheck.Collector()
  col(tr, rp['replay']['origin'])
  ctx.evaluations = 1
  writercheck.report(ctx, col, writersys.judge(ctx, col.traces, 'replay'), 'C04')
