"""C15 - what a relay's client encodes is what the next daemon's listener decodes.

A. TLC: Hop.tla - batches of at most MaxPerMsg ids leave the queue as frames, the listener's
   buffer-and-consume loop reads them under every segmentation: InOrderExactlyOnce, Complete,
   BatchSize, Conserved for all batch sizes 1..N, pickle and line framing.
B/C. A real CarbonPickleClientFactory / CarbonLineClientFactory (fake connector, task.Clock,
   StringTransport) transmits queues of random datapoints (random 64-bit patterns, boundary
   magnitudes 1e-12..1e308, +-inf, integers up to 2^53, timestamps in [0, 2^32) incl. fractional,
   whitespace-free names incl. non-ASCII) with MAX_DATAPOINTS_PER_MESSAGE 1..16; the bytes are
   decoded by an independent decoder (batch structure) and fed, under segmentations, to the
   real pickle / line listener.  Wire_Trace.tla judges order / exactly-once / batching; the
   per-datapoint value relation (pickle: bit-identical; line: name identical, timestamp
   truncated, |v' - v| <= 5e-11 or one ulp) is evaluated in exact arithmetic by the harness.
"""
import math
import pickle
import random
import struct
from fractions import Fraction

from twisted.internet import task
from twisted.internet.testing import StringTransport
from twisted.internet.address import IPv4Address

from . import wiresys, relaysys, tlc, env, c01
from .core import Machinery

PROP = c01.PROP | {'batching'}
WHAT = dict(c01.WHAT)
WHAT['batching'] = 'a message carried more than MAX_DATAPOINTS_PER_MESSAGE datapoints, or the messages do not add up to the queue in order'
WHAT['corrupt'] = 'a received datapoint does not stand in the required relation to the one queued (pickle: identical; line: same name, truncated timestamp, value within 5e-11 or one ulp)'


class FakeRouter(object):
  def __init__(self):
    self.d = set()

  def addDestination(self, d):
    self.d.add(d)

  def removeDestination(self, d):
    self.d.discard(d)

  def hasDestination(self, d):
    return d in self.d

  def countDestinations(self):
    return len(self.d)


class BackpressureTransport(StringTransport):
  """like a real TCP transport whose send buffer fills up: write() itself calls the registered push
  producer's pauseProducing() - in the middle of a batch - every `period`-th write; the harness resumes it later"""
  period = 0
  nwrites = 0
  npauses = 0

  def write(self, data):
    StringTransport.write(self, data)
    self.nwrites += 1
    if self.period and self.nwrites % self.period == 0 and self.producer is not None:
      self.npauses += 1
      self.producer.pauseProducing()

  def writeSequence(self, data):
    for d in data:
      self.write(d)


class HopEnv(object):
  def __init__(self, ctx):
    self.wm = wiresys.WireModules(ctx.scratch)
    self.wm.settings['PICKLE_RECEIVER_MAX_LENGTH'] = 2 ** 20
    self.configured = None
    self.witnessed = False

  def client(self, proto, mpm, pause_period=0, ratio_reset=False):
    s = self.wm.settings
    # USE_RATIO_RESET: a destination that receives much less than the relay took in is "slow"; its connection is
    # reset (disconnect() from inside sendQueued) - what is being sent at that moment must still arrive
    s['USE_RATIO_RESET'] = bool(ratio_reset)
    s['MIN_RESET_STAT_FLOW'] = 1
    s['MIN_RESET_RATIO'] = 0.9
    s['MIN_RESET_INTERVAL'] = 0
    import carbon.instrumentation as _inst
    _inst.prior_stats.clear()
    if ratio_reset:
      _inst.prior_stats['metricsReceived'] = 1000
    s['MAX_DATAPOINTS_PER_MESSAGE'] = mpm
    s['MAX_QUEUE_SIZE'] = 100000
    s['USE_FLOW_CONTROL'] = False
    s['DYNAMIC_ROUTER'] = False
    s['DESTINATION_POOL_REPLICAS'] = False
    s['TCP_KEEPALIVE'] = False
    if self.configured is None:
      self.mod = env.fresh('carbon.client')
      self.configured = True
    mod = self.mod

    class R(object):
      def __init__(self):
        self.clock = task.Clock()

      def callLater(self, d, f, *a, **k):
        return self.clock.callLater(d, f, *a, **k)

      def connectTCP(self, *a, **k):
        return None
    self.reactor = R()
    mod.reactor = self.reactor
    cls = mod.CarbonClientFactory.plugins[proto]
    dest = ('127.0.0.1', 2004, 'a')
    router = FakeRouter()
    router.addDestination(dest)
    f = cls(dest, router)
    f.clock = task.Clock()            # ReconnectingClientFactory's retry timer
    f.jitter = 0
    self.conn = relaysys.FakeConnector('127.0.0.1', 2004, f, None)
    self.conn.state = 'connected'
    p = f.buildProtocol(IPv4Address('TCP', '127.0.0.1', 2004))
    tr = BackpressureTransport()
    tr.period = pause_period
    p.makeConnection(tr)
    return f, p, tr

  def reconnect(self, f, p, pause_period, timer_fires_while_down=False):
    """the closing connection is gone (everything written to it was flushed first, as Twisted does); the factory
    retries and a new connection is made"""
    from twisted.internet.error import ConnectionDone
    from twisted.python.failure import Failure
    reason = Failure(ConnectionDone())
    self.conn.state = 'disconnected'
    p.connectionLost(reason)
    f.clientConnectionLost(self.conn, reason)
    if timer_fires_while_down:
      self.reactor.clock.advance(1)       # the deferred send fires with no connection
    f.clock.advance(1000)
    self.conn.state = 'connected'
    p2 = f.buildProtocol(IPv4Address('TCP', '127.0.0.1', 2004))
    tr2 = BackpressureTransport()
    tr2.period = pause_period
    p2.makeConnection(tr2)
    return p2, tr2


def gen_dp(rng):
  name, ts, v = wiresys.gen_datapoint(rng)
  r = rng.random()
  if r < 0.25:
    v = rng.choice([1, -1]) * 10.0 ** rng.randint(-12, 308) * rng.choice([1.0, 1.5, 9.999999999])
  elif r < 0.35:
    v = rng.randint(-2 ** 53, 2 ** 53)
  if isinstance(v, float) and v != v:
    v = 1.0
  ts = rng.choice([float(rng.randint(0, 2 ** 32 - 1)), rng.random() * (2 ** 32 - 1), float(rng.randint(0, 2 ** 31)) + 0.999])
  return (name, ts, v)


def related(proto, sent, got):
  if proto == 'pickle':
    return wiresys.same(sent, got)
  if sent[0] != got[0]:
    return False
  if float(got[1]) != float(math.floor(sent[1])):
    return False
  a, b = sent[2], got[2]
  if isinstance(a, float) and (a in (float('inf'), float('-inf'))):
    return a == b
  if isinstance(b, float) and (b != b or b in (float('inf'), float('-inf'))):
    return False          # a finite value arrived as inf / nan
  d = abs(Fraction(a) - Fraction(b))
  ulp = Fraction(math.ulp(float(a))) if float(a) not in (float('inf'), float('-inf')) else 0
  if d <= Fraction(5, 10 ** 11) or d <= ulp:
    return True
  # listed finding F17: the decimal text is within 5e-11 of the value, but parsing it back rounds once more
  # (half a unit in the last place of the RESULT): the total may exceed 5e-11 by that much
  if d <= Fraction(5, 10 ** 11) + Fraction(math.ulp(float(b))) / 2:
    return 'halfulp'
  return False


def one_queue(ctx, he, rng, proto, mpm, n):
  dps = [gen_dp(rng) for _ in range(n)]
  if rng.random() < 0.4:
    # the same name OBJECT queued again and again (an aggregator sends its metric_path at every flush)
    pool = [dps[0][0], dps[-1][0]]
    dps = [(pool[q % 2] if rng.random() < 0.7 else d[0], float(1000 + 3 * q) + (0.5 if rng.random() < 0.3 else 0.0), d[2])
           for q, d in enumerate(dps)]
  # every other queue goes out through a transport that pushes back in the middle of batches
  if proto == 'line' and not he.witnessed:
    dps[0] = (dps[0][0], dps[0][1], 39095.38037296945)      # witness of the listed finding F17 (every run)
    he.witnessed = True
  pp = rng.choice([0, 0, 1, 2, 3, 5])
  rr = rng.random() < 0.25
  f, p, tr = he.client(proto, mpm, pause_period=pp, ratio_reset=rr)
  transports = [tr]
  # datapoints arrive in bursts; the send timer fires in between
  i = 0
  while i < n:
    k = rng.randint(1, max(1, 2 * mpm))
    for dp in dps[i:i + k]:
      f.sendDatapoint(dp[0], (dp[1], dp[2]))
    i += k
    if rng.random() < 0.12 and not tr.disconnecting:
      # the connection drops while a send is pending (everything written so far had been flushed); the send timer
      # fires while the destination is down; the factory reconnects
      p, tr = he.reconnect(f, p, pp, timer_fires_while_down=True)
      transports.append(tr)
    for _ in range(rng.randint(0, 3)):
      he.reactor.clock.advance(1)
      if tr.disconnecting:
        p, tr = he.reconnect(f, p, pp)
        transports.append(tr)
      if getattr(p, 'paused', False) and rng.random() < 0.6:
        p.resumeProducing()          # the transport's buffer drained
  for _ in range(3 * n + 5):
    he.reactor.clock.advance(1)
    if tr.disconnecting:
      p, tr = he.reconnect(f, p, pp)
      transports.append(tr)
    if getattr(p, 'paused', False):
      p.resumeProducing()
  raw = b''.join(t.value() for t in transports)
  # independent decoder: batch structure of the bytes
  frames, batches = [], []
  ids = list(range(1, n + 1))
  if proto == 'pickle':
    pos = 0
    k = 0
    while pos + 4 <= len(raw):
      (ln,) = struct.unpack('!L', raw[pos:pos + 4])
      try:
        payload = pickle.loads(raw[pos + 4:pos + 4 + ln])
      except Exception as e:
        # a frame that a plain, independent unpickler cannot read: nothing downstream can be aligned
        return [dict(proto=proto, mode='frames', ref=[], refclosed=0, frames=[], segs=[], batches=[], mpm=mpm, n=n,
                     undecodable=repr(e))], dps, raw
      cnt = len(payload)
      frames.append(dict(len=4 + ln, kind='good', trip=4 + ln, ids=ids[k:k + cnt], what=''))
      batches.append(cnt)
      k += cnt
      pos += 4 + ln
  else:
    k = 0
    for line in raw.split(b'\r\n'):
      if not line:
        continue
      frames.append(dict(len=len(line) + 2, kind='good', trip=len(line) + 2, ids=ids[k:k + 1], what=''))
      k += 1
    batches = [1] * k
  # feed the real listener
  index = {}
  out = []
  lproto = proto
  pri = set()
  acc = 0
  for fr in frames:
    for d in range(-4, 6):
      pri.add(acc + d)
    acc += fr['len']
  pri = [c for c in pri if 0 < c < len(raw)]
  rng.shuffle(pri)
  cutsets = wiresys.all_cuts(len(raw), rng, ctx.pick(5, 20), pri[:ctx.pick(3, 12)]) if len(raw) > 1 else [[]]
  # (byte-by-byte delivery only for the first 150 bytes: TLC judges every segment)
  cutsets = [c if len(c) <= 160 else c[:150] for c in cutsets]
  bykey = {(dps[q][0], math.floor(dps[q][1])): q for q in range(n)}
  relcache = {}
  halfulp = {}
  for ci, cuts in enumerate(cutsets):
    # a third of the deliveries: flow control pauses the receiving daemon while the k-th datapoint is handled (cache
    # full) and resumes it after the read in progress - everything complete by then is ingested by then
    pause_at = (ci % max(1, n)) + 1 if (ci % 3 == 1 and n) else 0
    run = wiresys.Run(he.wm, lproto, flow=bool(pause_at))
    if pause_at:
      def pauser(m, dp, run=run, pause_at=pause_at):
        if len(run.seen) == pause_at:
          he.wm.events.pauseReceivingMetrics()
      he.wm.events.metricReceived.addHandler(pauser)
    segs = []
    nseen = 0
    bounds = [0] + list(cuts) + [len(raw)]
    try:
      for a, b in zip(bounds[:-1], bounds[1:]):
        esc = run.feed(raw[a:b])
        if pause_at and he.wm.state.metricReceiversPaused:
          he.wm.events.resumeReceivingMetrics()
        new = run.seen[nseen:]
        dl = []
        for j, g in enumerate(new):
          expect_idx = nseen + j          # position in the overall delivery order
          # identify by name (unique), then check the relation
          q = bykey.get((g[0], math.floor(g[1]) if g[1] == g[1] and abs(g[1]) < 1e18 else None))
          key = (q, g[1], g[2])
          if key not in relcache:
            relcache[key] = q is not None and related(proto, dps[q], g)
          if relcache[key] == 'halfulp':
            halfulp[q] = (repr(dps[q][2]), repr(g[2]))
          dl.append(q + 1 if relcache[key] else 0)
        nseen = len(run.seen)
        segs.append(dict(n=b - a, delivered=dl, escaped=esc, closed=1 if run.tr.disconnecting else 0))
    finally:
      run.close()
    out.append(dict(proto=proto, mode='frames', ref=[], refclosed=0, frames=frames, segs=segs,
                    batches=batches, mpm=mpm, n=n, halfulp=sorted(halfulp.values())))
  return out, dps, raw


def run(ctx):
  ctx.rule = ('queues of 1-40 datapoints with extreme values/timestamps/names, MAX_DATAPOINTS_PER_MESSAGE 1..16, pickle and line '
              'client protocols, arrival bursts interleaved with the send timer; the byte stream cut at every position (sampled) '
              'before the real listener; non-trivial = queue longer than one message')
  ctx.value_oracles += ['pickle: bit-identical floats (struct.pack)', 'line: |v\' - v| <= 5e-11 or <= 1 ulp in exact Fraction arithmetic; timestamp = floor']
  ctx.assumptions += ['protobuf client/listener excluded (google.protobuf not installed)']
  for proto in ('pickle', 'line'):
    for mpm in ctx.pick([1, 2, 6], [1, 2, 3, 6]):
      cfg = tlc.cfg_text(spec='Spec', constants=dict(N=ctx.pick(5, 6), MaxPerMsg=mpm, Proto='"%s"' % proto, MaxLen=ctx.pick(2, 3)),
                         invariants=['InOrderExactlyOnce', 'Complete', 'BatchSize', 'Conserved'])
      res = tlc.check_ok(tlc.run('Hop', cfg, ctx.scratch, coverage=True), 'Hop model')
      ctx.add_tlc('Hop[%s,mpm=%d]' % (proto, mpm), res, must_cover=None if res.violated else ['Send', 'Segment'])
      if res.violated:
        raise Machinery('Hop.tla violates %s' % res.violated)
  he = HopEnv(ctx)
  traces, origins = [], []
  for k in range(ctx.pick(60, 800)):
    proto = 'pickle' if k % 2 == 0 else 'line'
    mpm = ctx.rng.randint(1, 16)
    n = ctx.rng.randint(1, 40)
    if k in (7, 8) or (not ctx.quick and k % 100 in (7, 8)):
      mpm, n = 500, ctx.rng.randint(210, 320)       # the default message size, a message of a few hundred datapoints
    trs, dps, raw = one_queue(ctx, he, ctx.rng, proto, mpm, n)
    for t in trs:
      traces.append(t)
      origins.append(dict(proto=proto, mpm=mpm, n=n, datapoints=[[d[0], repr(d[1]), repr(d[2])] for d in dps[:50]]))
      ctx.evaluations += 1
  verdicts = wiresys.judge(ctx, traces, 'C15 traces')
  for i, tr in enumerate(traces):
    ctx.traces += 1
    if tr['n'] > tr['mpm']:
      ctx.nontriv(i)
    fl = set(verdicts[i])
    if tr.get('undecodable'):
      ctx.violation('a message written by the %s client cannot be decoded on its own by an independent decoder (%s)' % (tr['proto'], tr['undecodable']),
                    dict(origin=origins[i]), signature='undecodable:' + tr['proto'])
      continue
    for sent, got in tr.get('halfulp', ()):
      ctx.violation('line protocol: the value received differs from the value queued by more than 5e-11 and more than one unit in the last place '
                    '(queued %s, received %s)' % (sent, got), dict(queued=sent, received=got, origin=origins[i]), signature='line-halfulp')
    if any(b > tr['mpm'] or b < 1 for b in tr['batches']) or sum(tr['batches']) != tr['n']:
      fl.add('batching')
    for f in sorted(fl & PROP):
      ctx.violation(WHAT[f] + ' [%s client, MAX_DATAPOINTS_PER_MESSAGE=%d]' % (tr['proto'], tr['mpm']),
                    dict(origin=origins[i], segs=tr['segs'][:10], batches=tr['batches'], flags=sorted(fl)), signature=f + ':' + tr['proto'])
  ctx.sample(dict(kind='hop', origin={k: v for k, v in origins[0].items() if k != 'datapoints'}, datapoints=origins[0]['datapoints'][:4],
                  batches=traces[0]['batches'], segs=traces[0]['segs'][:4]))
  import copy
  bad = copy.deepcopy(next((t for t in traces if any(sg['delivered'] for sg in t['segs'])), traces[0]))
  for s in bad['segs']:
    if s['delivered']:
      s['delivered'][0] = 0
      break
  v = wiresys.judge(ctx, [bad], 'negative control')
  ctx.negative_control('a received datapoint marked as not related to the sent one', 'corrupt' in v[0])


def replay(ctx, rp):
  raise NotImplementedError('rerun ./check C15 with the same VERIF_SEED')
