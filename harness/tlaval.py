"""Parser for TLA+ values as printed by TLC (state dumps, simulation traces, PrintT).

Values map to Python as:
  integers -> int, TRUE/FALSE -> bool, "str" -> str, model values -> ModelValue(name)
  <<a, b>> -> tuple, {a, b} -> frozenset, [f |-> v] -> dict (str keys)
  (k :> v @@ ...) -> dict (parsed keys), a..b -> frozenset(range)
A function whose domain is 1..n is printed by TLC as a tuple already.
"""
import re


class ModelValue(str):
  def __repr__(self):
    return 'MV(%s)' % str.__repr__(self)


class FrozenDict(dict):
  def __hash__(self):
    return hash(frozenset(self.items()))


_tok = re.compile(r'''
  \s*(?:
    (?P<str>"(?:[^"\\]|\\.)*") |
    (?P<int>-?\d+) |
    (?P<sym><<|>>|\|->|:>|@@|\.\.|[\[\]{}(),]) |
    (?P<id>[A-Za-z_][A-Za-z0-9_!]*)
  )''', re.X)


class _P(object):
  def __init__(self, s):
    self.toks = []
    pos = 0
    s = s.strip()
    while pos < len(s):
      m = _tok.match(s, pos)
      if not m:
        if s[pos:].strip() == '':
          break
        raise ValueError('cannot tokenize TLA value at %r' % s[pos:pos + 40])
      pos = m.end()
      kind = m.lastgroup
      self.toks.append((kind, m.group(kind)))
    self.i = 0

  def peek(self):
    return self.toks[self.i] if self.i < len(self.toks) else (None, None)

  def next(self):
    t = self.peek()
    self.i += 1
    return t

  def expect(self, sym):
    k, v = self.next()
    if v != sym:
      raise ValueError('expected %s got %r' % (sym, v))

  def value(self):
    v = self.atom()
    k, s = self.peek()
    if s == '..':
      self.next()
      hi = self.atom()
      return frozenset(range(v, hi + 1))
    return v

  def atom(self):
    k, v = self.next()
    if k == 'int':
      return int(v)
    if k == 'str':
      return bytes(v[1:-1], 'utf-8').decode('unicode_escape')
    if k == 'id':
      if v == 'TRUE':
        return True
      if v == 'FALSE':
        return False
      return ModelValue(v)
    if v == '<<':
      items = []
      if self.peek()[1] == '>>':
        self.next()
        return ()
      while True:
        items.append(self.value())
        k2, v2 = self.next()
        if v2 == '>>':
          return tuple(items)
        if v2 != ',':
          raise ValueError('bad sequence')
    if v == '{':
      items = []
      if self.peek()[1] == '}':
        self.next()
        return frozenset()
      while True:
        items.append(self.value())
        k2, v2 = self.next()
        if v2 == '}':
          return frozenset(items)
        if v2 != ',':
          raise ValueError('bad set')
    if v == '[':
      d = FrozenDict()
      while True:
        k2, name = self.next()
        self.expect('|->')
        d[name] = self.value()
        k3, v3 = self.next()
        if v3 == ']':
          return d
        if v3 != ',':
          raise ValueError('bad record')
    if v == '(':
      d = FrozenDict()
      while True:
        key = self.value()
        self.expect(':>')
        d[key] = self.value()
        k3, v3 = self.next()
        if v3 == ')':
          return d
        if v3 != '@@':
          raise ValueError('bad function')
    raise ValueError('unexpected token %r' % (v,))


def parse(s):
  p = _P(s)
  v = p.value()
  if p.i != len(p.toks):
    raise ValueError('trailing tokens in %r' % s[:80])
  return v


def parse_state(text):
  """Parse '/\\ a = v\\n/\\ b = w' (TLC state printing) into a dict."""
  out = {}
  # split on top-level '/\ name =' at line starts
  parts = re.split(r'(?m)^\s*/\\ ', text.strip())
  for part in parts:
    part = part.strip()
    if not part:
      continue
    m = re.match(r'([A-Za-z_][A-Za-z0-9_]*)\s*=\s*(.*)\Z', part, re.S)
    if not m:
      # single-variable states are printed without /\
      raise ValueError('bad state conjunct %r' % part[:60])
    out[m.group(1)] = parse(m.group(2))
  return out


def parse_state_loose(text):
  text = text.strip()
  if not text.startswith('/\\'):
    text = '/\\ ' + text
  return parse_state(text)


def to_tla(v):
  """Python -> TLA+ literal text (for generated cfg/modules)."""
  if isinstance(v, bool):
    return 'TRUE' if v else 'FALSE'
  if isinstance(v, int):
    return str(v)
  if isinstance(v, ModelValue):
    return str(v)
  if isinstance(v, str):
    return '"%s"' % v.replace('\\', '\\\\').replace('"', '\\"')
  if isinstance(v, (tuple, list)):
    return '<<' + ', '.join(to_tla(x) for x in v) + '>>'
  if isinstance(v, (set, frozenset)):
    return '{' + ', '.join(sorted(to_tla(x) for x in v)) + '}'
  if isinstance(v, dict):
    if not v:
      return '<<>>'
    if all(isinstance(k, str) and re.match(r'^[A-Za-z_]\w*$', k) and not isinstance(k, ModelValue) for k in v):
      return '[' + ', '.join('%s |-> %s' % (k, to_tla(x)) for k, x in v.items()) + ']'
    return '(' + ' @@ '.join('%s :> %s' % (to_tla(k), to_tla(x)) for k, x in v.items()) + ')'
  raise TypeError('cannot render %r' % (v,))
