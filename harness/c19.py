"""C19 - new metrics get the first matching storage schema and aggregation policy.

A. TLC: Schemas.tla - first-match over ordered sections with unusable sections transparent
   (Transparent, FirstWins over every small section list x match vector).
B/C. Generated storage-schemas.conf / storage-aggregation.conf files (1-6 sections in every order for
   small files, overlapping patterns, sections lacking pattern or retentions, every unit suffix,
   multi-archive retentions, default placement) are written into the scratch CONF_DIR, loaded through
   the writer's own reloadStorageSchemas() / reloadAggregationSchemas(), a datapoint for a probe
   metric is stored in the real cache and the real writeCachedDataPoints() runs against an in-memory
   database plugin; TLC compares the recorded create(metric, retentions, xFilesFactor, method) with
   Schemas!Retention / FirstIdx for every case.
"""
import itertools
import os
import shutil
import random
import json

from . import env, tlc
from .core import Machinery

ALPHA = 'abcd.x'
UNITS = ['', 's', 'm', 'h', 'd', 'w', 'y']
METHODS = [None, 'average', 'sum', 'last', 'max', 'min']
PROP = {'not-created', 'retentions', 'xFilesFactor', 'aggregationMethod'}
WHAT = {
  'not-created': 'the new metric was not created',
  'retentions': 'the file was not created with the retentions of the first matching storage-schemas section (or the conversion of a retention string is wrong)',
  'xFilesFactor': 'the file was not created with the xFilesFactor of the first matching storage-aggregation section',
  'aggregationMethod': 'the file was not created with the aggregation method of the first matching storage-aggregation section',
}


def enc(s):
  return [ALPHA.index(c) + 1 for c in s]


def render_pat(p):
  lit = ''.join(ALPHA[c - 1] for c in p['lit']).replace('.', '\\.')
  # 'any*' kinds match every name with an EMPTY match (zero width): '^', an optional prefix, a starred letter
  raw = ''.join(ALPHA[c - 1] for c in p['lit'])
  return dict(prefixany='^' + raw, subany=raw, sub=lit, prefix='^' + lit, suffix=lit + '$', exact='^' + lit + '$', anystart='^', anyopt='^(' + lit + ')?',
              anystar='x*', anylook='^(?!zz' + lit + ')', prefixopt='^' + lit + '?', prefixstar='^' + lit + '*')[p['k']]


def gen_pat(rng):
  return dict(k=rng.choice(['sub', 'sub', 'prefix', 'suffix', 'exact', 'sub', 'prefix', 'suffix', 'exact', 'anystart', 'anyopt', 'anystar', 'anylook', 'prefixopt', 'prefixstar', 'prefixany', 'subany', 'prefixany']),
              lit=enc(''.join(rng.choice('abcd.') for _ in range(rng.randint(1, 3)))))


def gen_ret(rng):
  pn, pu = rng.choice([1, 2, 10, 60, 90]), rng.choice([0, 0, 1, 2, 2, 3])
  prec = pn * [1, 1, 60, 3600, 86400, 604800, 31536000][pu]
  if rng.random() < 0.4:
    qn, qu = rng.choice([1, 10, 100, 1440, 10080]), 0
  else:
    qu = rng.choice([2, 3, 4, 5, 6])
    qn = rng.choice([1, 2, 7, 30, 90])
    if qu == 6:
      qn = rng.choice([1, 2, 5, 10])      # keep the number of seconds below 2^31 (TLC integers)
    if qn * [1, 1, 60, 3600, 86400, 604800, 31536000][qu] < prec:
      qu, qn = 6, 1
  return [pn, pu, qn, qu]


def render_ret(r):
  return '%d%s:%d%s' % (r[0], UNITS[r[1]], r[2], UNITS[r[3]])


class DB(object):
  aggregationMethods = ['average', 'sum', 'last', 'max', 'min']

  def __init__(self):
    self.created = []
    self.files = set()

  def exists(self, m):
    return m in self.files

  def create(self, m, retentions, xff, method):
    self.created.append((m, retentions, xff, method))
    self.files.add(m)

  def write(self, m, dps):
    pass

  def validateArchiveList(self, al):
    pass


def gen_case(rng):
  ns = rng.randint(0, 4)
  storage = []
  for i in range(ns):
    r = rng.random()
    # a third of the sections repeat the pattern of an earlier section (shadowed, or the usable twin of an unusable one)
    pat = dict(rng.choice(storage)['pat']) if storage and rng.random() < 0.35 else gen_pat(rng)
    storage.append(dict(haspat=0 if r < 0.15 else 1, hasret=0 if 0.15 <= r < 0.3 else 1, pat=pat,
                        rets=[gen_ret(rng) for _ in range(rng.randint(1, 3))]))
  na = rng.randint(0, 3)
  agg = []
  for i in range(na):
    agg.append(dict(haspat=0 if rng.random() < 0.2 else 1, pat=(dict(rng.choice(agg)['pat']) if agg and rng.random() < 0.35 else gen_pat(rng)),
                    xff=rng.choice([-1, 0, 10, 50, 100]), method=rng.randint(0, 5)))
  lits = [s['pat'] for s in storage + agg]
  base = ''.join(rng.choice('abcdx') for _ in range(rng.randint(1, 4)))
  cands = [base]
  for p in lits:
    lit = ''.join(ALPHA[c - 1] for c in p['lit'])
    cands += [lit, 'x' + lit, lit + 'x', 'x' + lit + 'x', lit.replace('.', 'x'), lit.replace('.', 'c') + 'x']
  name = rng.choice(cands)
  return storage, agg, name


def write_files(conf, st, agg, reuse_names=False):
  with open(os.path.join(conf, 'storage-schemas.conf'), 'w') as fh:
    fh.write('# generated\n')
    for i, s in enumerate(st):
      fh.write('[sec%d]\n' % i)
      if s['haspat']:
        fh.write('pattern = %s\n' % render_pat(s['pat']))
      if s['hasret']:
        fh.write('retentions = %s\n' % ', '.join(render_ret(r) for r in s['rets']))
      fh.write('\n')
  with open(os.path.join(conf, 'storage-aggregation.conf'), 'w') as fh:
    for i, a in enumerate(agg):
      fh.write('[%s]\n' % (('sec%d' % (len(agg) - 1 - i)) if reuse_names else ('agg%d' % i)))
      if a['haspat']:
        fh.write('pattern = %s\n' % render_pat(a['pat']))
      if a['xff'] >= 0:
        fh.write('xFilesFactor = %s\n' % (a['xff'] / 100.0))
      if a['method']:
        fh.write('aggregationMethod = %s\n' % METHODS[a['method']])
      fh.write('\n')
  for fn in ('storage-schemas.conf', 'storage-aggregation.conf'):
    os.utime(os.path.join(conf, fn), (1000.0, 1000.0))


def text_of(name, st, agg):
  return dict(name=name, storage=[(render_pat(s['pat']) if s['haspat'] else '(no pattern)',
                                   [render_ret(r) for r in s['rets']] if s['hasret'] else '(no retentions)') for s in st],
              aggregation=[(render_pat(a['pat']) if a['haspat'] else '(no pattern)', a['xff'], METHODS[a['method']] or '(none)') for a in agg])


def observe(db, name):
  obs = dict(created=0, rets=[], xff=-1, method=0)
  if db.created:
    m, rets, xff, method = db.created[0]
    obs = dict(created=1 if m == name and len(db.created) == 1 else 0, rets=[[int(a), int(b)] for a, b in rets],
               xff=-1 if xff is None else int(round(xff * 100)), method=METHODS.index(method))
  return obs


def judge(ctx, recs, what):
  cfg = tlc.cfg_text(spec='Spec', constants=dict(Mode='"trace"', MaxSections=0), constraints=['Report'])
  verdicts = {}
  CH = 2500
  for k in range(0, len(recs), CH):
    chunk = recs[k:k + CH]
    r, done, bad = tlc.validate_batch('Schemas', cfg, ctx.scratch, chunk, workers=8, timeout=3000)
    tlc.check_ok(r, what)
    ctx.states += r.distinct
    ctx.transitions += r.generated
    got = {}
    for v in tlc.extract_prints(r.out, 'DONE'):
      got[v[1]] = set()
    for v in tlc.extract_prints(r.out, 'F'):
      got.setdefault(v[1], set()).add(v[2])
    if len(got) != len(chunk):
      raise Machinery('%s: %d of %d cases judged\n%s' % (what, len(got), len(chunk), r.out[-2500:]))
    for i in range(1, len(chunk) + 1):
      verdicts[k + i - 1] = got[i]
  return verdicts


def concurrent_reload(ctx, settings, writer, cache, state):
  """The 60 s reload task (reactor thread) lands while the writer thread is looking a new metric up: the file is
  created according to the file in force before the reload or the one after it - never a mixture of the two."""
  from . import sched
  import carbon.instrumentation
  conf = settings['CONF_DIR']
  rng = ctx.rng
  wfile = writer.__file__
  funcs = {wfile: {'writeCachedDataPoints', 'reloadStorageSchemas', 'reloadAggregationSchemas'}}
  pairs = []
  while len(pairs) < ctx.pick(12, 80):
    storage, agg, name = gen_case(rng)
    if len(storage) < 2:
      continue
    # the edit: sections moved, one inserted in front, or one removed
    k = rng.randrange(3)
    if k == 0:
      st2 = storage[1:] + storage[:1] if rng.random() < 0.5 else list(reversed(storage))
    elif k == 1:
      st2 = [dict(storage[-1])] + storage
    else:
      st2 = storage[1:]
    ag2 = list(reversed(agg)) if rng.random() < 0.6 else agg[1:]
    pairs.append((storage, agg, st2, ag2, name))
  seen = {}
  nruns = 0
  for pi, (stA, agA, stB, agB, name) in enumerate(pairs):
    def run_once(chooser):
      write_files(conf, stA, agA)
      writer.reloadStorageSchemas()
      writer.reloadAggregationSchemas()
      db = DB()
      state.database = db
      cache._Cache = None
      c = cache.MetricCache()
      c.store(name, (1000.0, 1.0))
      carbon.instrumentation.stats.clear()
      write_files(conf, stB, agB)
      sc = sched.Scheduler(files=[wfile], funcs=funcs, max_steps=5000)
      sc.spawn('W', writer.writeCachedDataPoints)
      sc.spawn('R', lambda: (writer.reloadStorageSchemas(), writer.reloadAggregationSchemas()))
      log = sc.run(chooser)
      cache._Cache = None
      run_once.obs = observe(db, name)
      run_once.exc = [repr(t.exc) for t in sc.threads if t.exc is not None]
      return log
    for forced, log in sched.explore_bounded(run_once, 1, limit=ctx.pick(120, 400), rng=rng):
      nruns += 1
      if run_once.exc:
        ctx.violation('the writer or the reload task raised while a reload landed during a new-metric lookup: %s' % run_once.exc,
                      dict(before=text_of(name, stA, agA), after=text_of(name, stB, agB), forced=sorted(forced.items())), signature='reload-raised')
      key = (pi, json.dumps(run_once.obs, sort_keys=True))
      seen.setdefault(key, sorted(forced.items()))
  recs, idx = [], []
  for (pi, ob), forced in seen.items():
    stA, agA, stB, agB, name = pairs[pi]
    obs = json.loads(ob)
    recs.append(dict(storage=stA, aggregation=agA, name=enc(name), obs=obs))
    recs.append(dict(storage=stB, aggregation=agB, name=enc(name), obs=obs))
    idx.append((pi, obs, forced))
  verdicts = judge(ctx, recs, 'C19 concurrent reload') if recs else {}
  for j, (pi, obs, forced) in enumerate(idx):
    stA, agA, stB, agB, name = pairs[pi]
    both = verdicts[2 * j] & verdicts[2 * j + 1] & PROP
    for f in sorted(both):
      ctx.violation('a reload of the schema files landed while the writer thread was looking a new metric up, and ' + WHAT[f] +
                    ' - neither of the file in force before the reload nor of the one after it',
                    dict(before=text_of(name, stA, agA), after=text_of(name, stB, agB), observed=obs, forced=forced), signature='reload-mix:' + f)
  ctx.evaluations += nruns
  ctx.cov['concurrent_reload_schedules'] = nruns
  ctx.cov['concurrent_reload_distinct_outcomes'] = len(idx)


def run(ctx):
  ctx.rule = ('0-4 storage sections (pattern and/or retentions missing with probability 0.3) x 0-3 aggregation sections, every '
              'permutation of the storage sections for files of <= 3 sections, retention strings over precision {1,2,10,60,90} x '
              'units {none,s,m,h} and points as counts or durations in m/h/d/w/y, probe names derived from the patterns; '
              'non-trivial = case in which at least two sections match or an unusable section precedes the match')
  ctx.value_oracles.append('regex matching restricted to the literal pattern grammar decided by Schemas!PatMatches')
  ctx.assumptions += ['the in-memory database plugin accepts every archive list (validateArchiveList is the backend\'s)']
  mc = tlc.cfg_text(spec='Spec', constants=dict(Mode='"model"', MaxSections=ctx.pick(5, 6)), invariants=['Transparent', 'FirstWins'])
  res = tlc.check_ok(tlc.run('Schemas', mc, ctx.scratch), 'Schemas model')
  ctx.add_tlc('Schemas', res)
  if res.violated:
    raise Machinery('Schemas.tla violates %s' % res.violated)
  settings = env.bootstrap(ctx.scratch)
  from twisted.python import log as tlog
  tlog.startLoggingWithObserver(lambda e: None, setStdout=False)      # 'Schema ... missing pattern, skipping' is expected here, not news
  settings['MAX_CREATES_PER_MINUTE'] = float('inf')
  settings['MAX_UPDATES_PER_SECOND'] = float('inf')
  settings['CACHE_WRITE_STRATEGY'] = 'sorted'
  settings['MAX_CACHE_SIZE'] = float('inf')
  settings['CACHE_SIZE_HARD_MAX'] = float('inf')
  settings['CACHE_SIZE_LOW_WATERMARK'] = float('inf')
  import carbon.state as state
  import carbon.events
  import carbon.instrumentation
  state.events = carbon.events
  state.instrumentation = carbon.instrumentation
  state.database = None
  import carbon.cache as cache
  writer = env.fresh('carbon.writer')
  conf = settings['CONF_DIR']
  rng = ctx.rng
  recs = []
  for _ in range(ctx.pick(500, 6000)):
    storage, agg, name = gen_case(rng)
    orders = [list(range(len(storage)))]
    if 2 <= len(storage) <= 3:
      orders = [list(p) for p in itertools.permutations(range(len(storage)))]
    for order in orders:
      st = [storage[i] for i in order]
      with open(os.path.join(conf, 'storage-schemas.conf'), 'w') as fh:
        fh.write('# generated\n')
        for i, s in enumerate(st):
          fh.write('[sec%d]\n' % i)
          if s['haspat']:
            fh.write('pattern = %s\n' % render_pat(s['pat']))
          elif (len(recs) + i) % 2:
            fh.write('pattern =\n')          # the key is there, the pattern is not: lacking a pattern all the same
          if s['hasret']:
            fh.write('retentions = %s\n' % ', '.join(render_ret(r) for r in s['rets']))
          fh.write('\n')
      with open(os.path.join(conf, 'storage-aggregation.conf'), 'w') as fh:
        for i, a in enumerate(agg):
          # half of the files reuse the section names of storage-schemas.conf, in another order (section names are labels only)
          fh.write('[%s]\n' % (('sec%d' % (len(agg) - 1 - i)) if len(recs) % 2 else ('agg%d' % i)))
          if a['haspat']:
            fh.write('pattern = %s\n' % render_pat(a['pat']))
          elif (len(recs) + i) % 2 == 0:
            fh.write('pattern =\n')
          if a['xff'] >= 0:
            fh.write('xFilesFactor = %s\n' % (a['xff'] / 100.0))
          if a['method']:
            fh.write('aggregationMethod = %s\n' % METHODS[a['method']])
          fh.write('\n')
      # the files are REPLACED between cases with preserved modification times (config management, mv, rsync -t):
      # what counts is the content in place when the 60 s reload task runs
      for fn in ('storage-schemas.conf', 'storage-aggregation.conf'):
        os.utime(os.path.join(conf, fn), (1000.0, 1000.0))
      if not agg and len(recs) % 2:
        os.unlink(os.path.join(conf, 'storage-aggregation.conf'))      # the optional file is removed
      use_whisper = (len(recs) % 3 == 1)
      if use_whisper:
        # the real WhisperDatabase plugin over the stand-in whisper module: what create() hands to whisper.create()
        import carbon.database as cdb
        import whisper as wstub
        del wstub.created[:]
        wroot = os.path.join(ctx.scratch, 'c19data')
        shutil.rmtree(wroot, ignore_errors=True)
        os.makedirs(wroot, exist_ok=True)
        settings['LOCAL_DATA_DIR'] = wroot
        for kk in ('WHISPER_AUTOFLUSH', 'WHISPER_SPARSE_CREATE', 'WHISPER_FALLOCATE_CREATE', 'WHISPER_LOCK_WRITES', 'WHISPER_FADVISE_RANDOM'):
          settings[kk] = False
        db = cdb.WhisperDatabase(settings)
      else:
        db = DB()
      state.database = db
      writer.reloadStorageSchemas()
      writer.reloadAggregationSchemas()
      cache._Cache = None
      c = cache.MetricCache()
      c.store(name, (1000.0, 1.0))
      carbon.instrumentation.stats.clear()
      writer.writeCachedDataPoints()
      cache._Cache = None
      obs = dict(created=0, rets=[], xff=-1, method=0)
      if use_whisper:
        db.created = [(name if p.endswith('.wsp') else '?', al, xf, me) for (p, al, xf, me) in wstub.created]
      if db.created:
        m, rets, xff, method = db.created[0]
        obs = dict(created=1 if m == name and len(db.created) == 1 else 0, rets=[[int(a), int(b)] for a, b in rets],
                   xff=-1 if xff is None else int(round(xff * 100)), method=METHODS.index(method))
      recs.append(dict(storage=st, aggregation=agg, name=enc(name), obs=obs,
                       text=dict(name=name, storage=[(render_pat(s['pat']) if s['haspat'] else '(no pattern)',
                                                      [render_ret(r) for r in s['rets']] if s['hasret'] else '(no retentions)') for s in st],
                                 aggregation=[(render_pat(a['pat']) if a['haspat'] else '(no pattern)', a['xff'], METHODS[a['method']] or '(none)') for a in agg])))
  ctx.evaluations = len(recs)
  concurrent_reload(ctx, settings, writer, cache, state)
  cfg = tlc.cfg_text(spec='Spec', constants=dict(Mode='"trace"', MaxSections=0), constraints=['Report'])
  verdicts = {}
  CH = 2500
  for k in range(0, len(recs), CH):
    chunk = recs[k:k + CH]
    r, done, bad = tlc.validate_batch('Schemas', cfg, ctx.scratch, chunk, workers=8, timeout=3000)
    tlc.check_ok(r, 'C19 cases')
    ctx.states += r.distinct
    ctx.transitions += r.generated
    got = {}
    for v in tlc.extract_prints(r.out, 'DONE'):
      got[v[1]] = set()
    for v in tlc.extract_prints(r.out, 'F'):
      got.setdefault(v[1], set()).add(v[2])
    if len(got) != len(chunk):
      raise Machinery('C19: %d of %d cases judged\n%s' % (len(got), len(chunk), r.out[-2500:]))
    for i in range(1, len(chunk) + 1):
      verdicts[k + i - 1] = got[i]
  for i, rec in enumerate(recs):
    ctx.traces += 1
    if len(rec['storage']) >= 2 or len(rec['aggregation']) >= 2:
      ctx.nontriv(i)
    for f in sorted(verdicts[i] & PROP):
      ctx.violation(WHAT[f], dict(case=rec['text'], observed=rec['obs']), signature=f)
  ctx.sample(dict(kind='schema case', case=recs[0]['text'], observed=recs[0]['obs']))
  import copy
  bad = copy.deepcopy(next(r for r in recs if r['obs']['created'] and r['obs']['rets']))
  bad['obs']['rets'][0][1] += 1
  r, done, b2 = tlc.validate_batch('Schemas', cfg, ctx.scratch, [bad], workers=1)
  fl = set(v[2] for v in tlc.extract_prints(r.out, 'F'))
  ctx.negative_control('number of points of the first archive off by one', 'retentions' in fl)


def replay(ctx, rp):
  raise NotImplementedError('rerun ./check C19 with the same VERIF_SEED')
