"""Shared driver for the writer checks (C03, C04)."""
import copy
import json
import random

from . import writersys, sched, tlc, cachesys
from .core import Machinery

FLAGS = {
  'C03': {'silentdiscard', 'foreignwrite', 'partialwrite', 'doublewrite', 'writebeforecreate',
          'counter:droppedCreates', 'counter:committedPoints', 'counter:creates', 'unreportederror', 'drainmismatch'},
  'C04': {'unflushed'},
}
WHAT = {
  'silentdiscard': 'a drained batch was neither written, counted as a dropped create nor reported as an error',
  'foreignwrite': 'a write call carried datapoints that were not drained for that metric',
  'partialwrite': 'a write call carried only part of the drained batch',
  'doublewrite': 'a datapoint was passed to the backend in more than one write call',
  'writebeforecreate': 'write was called for a metric whose file does not exist',
  'counter:droppedCreates': 'droppedCreates does not match the batches dropped',
  'counter:committedPoints': 'committedPoints does not match the datapoints written',
  'counter:creates': 'creates does not match the files created',
  'unreportederror': 'a backend failure was neither counted in errors nor logged as an error',
  'drainmismatch': 'the batch handed to the writer differs from what the cache held for that metric',
  'unflushed': 'a datapoint accepted before the stop was initiated is still in the cache when the writer thread exits',
}


class Collector(cachesys.Collector):
  pass


def explore(ctx, wm, cfg, r_ops, faults, preexisting, bound, nrandom, limit, sink, segments=None, plans=None):
  def run_once(chooser):
    run = writersys.WriterRun(wm, cfg, r_ops, faults=faults, preexisting=preexisting)
    try:
      tr, log = run.execute(chooser)
    except (sched.Blocked, sched.Deadlock, sched.StepLimit) as e:
      # the writer (or the storing) thread never finishes: nothing cached at that point is ever written
      ctx.violation('a thread of the cache daemon never finishes (%s: %s): what is cached is never written' % (type(e).__name__, e),
                    dict(base, events=[x for x in run.ev if x.get('k') != 'cnt'][-12:]), signature='hang')
      run_once.last = None
      return []
    run_once.last = tr
    return log
  base = dict(cfg={k: v for k, v in cfg.items()}, r_ops=r_ops, faults=sorted(faults), preexisting=sorted(preexisting),
              limits=wm.configured)
  n = 0
  for forced, log in sched.explore_bounded(run_once, bound, limit=limit, rng=ctx.rng):
    n += 1
    if run_once.last is None:
      return n              # hangs: reported; every further schedule would take the watchdog's time-out again
    sink(run_once.last, dict(base, forced=sorted(forced.items()), kind='bounded'))
  for seg in (segments or ()):
    run_once(sched.segment_chooser(seg))
    n += 1
    if run_once.last is None:
      return n
    sink(run_once.last, dict(base, segments=[list(x) for x in seg], kind='segments'))
  # landmark plans: (thread, condition) phases, see sched.landmark_chooser
  holder = {}
  for plan in (plans or ()):
    def run_plan(chooser_factory):
      run = writersys.WriterRun(wm, cfg, r_ops, faults=faults, preexisting=preexisting)
      holder['run'] = run
      try:
        tr, log = run.execute(sched.landmark_chooser(lambda: holder['run'].sched, plan, phase_cap=500))
      except (sched.Blocked, sched.Deadlock, sched.StepLimit) as e:
        ctx.violation('a thread of the cache daemon never finishes (%s: %s): what is cached is never written' % (type(e).__name__, e),
                      dict(base, plan=[[p[0], list(p[1])] for p in plan]), signature='hang')
        return None
      return tr
    tr = run_plan(None)
    n += 1
    if tr is None:
      return n
    sink(tr, dict(base, kind='plan', plan=[[p[0], list(p[1])] for p in plan]))
  for i in range(nrandom):
    seed = ctx.rng.randrange(1 << 30)
    rr = random.Random(seed)
    run_once(sched.random_chooser(rr, switch_p=rr.choice([0.03, 0.1, 0.3])))
    n += 1
    if run_once.last is None:
      return n
    sink(run_once.last, dict(base, rseed=seed, kind='random'))
  return n


def rerun(wm, origin):
  wm.configure(*origin['limits'])
  cfg = dict(origin['cfg'])
  cfg['buckets'] = wm.buckets
  run = writersys.WriterRun(wm, cfg, [tuple(o) for o in origin['r_ops']], faults=set(origin['faults']),
                            preexisting=tuple(origin['preexisting']))
  if origin['kind'] == 'bounded':
    ch = sched.forced_chooser(dict((int(s), t) for s, t in origin['forced']))
  elif origin['kind'] == 'plan':
    ch = sched.landmark_chooser(lambda: run.sched, [(p[0], tuple(p[1])) for p in origin['plan']], phase_cap=500)
  elif origin['kind'] == 'segments':
    ch = sched.segment_chooser([tuple(x) for x in origin['segments']])
  else:
    rr = random.Random(origin['rseed'])
    ch = sched.random_chooser(rr, switch_p=rr.choice([0.03, 0.1, 0.3]))
  tr, log = run.execute(ch)
  return tr


def report(ctx, col, verdicts, pid):
  for i, tr in enumerate(col.traces):
    ctx.traces += 1
    evs = tr['ev']
    nfault = sum(1 for e in evs if e['k'] == 'db' and not e['ok'])
    # non-trivial: the store thread ran between two backend calls of the writer, or a fault was injected,
    # or the stop arrived while data was cached / in the writer's hands
    ks = [e['k'] for e in evs]
    inter = any(ks[j] == 'stored' and 'db' in ks[:j] and 'db' in ks[j:] for j in range(len(ks)))
    if inter or nfault:
      ctx.nontriv(i)
    if nfault:
      ctx.cov['traces_with_faults'] = ctx.cov.get('traces_with_faults', 0) + 1
    for m, ts, vid in tr.get('lost', ())[:1]:
      ctx.violation('a datapoint handed to MetricCache.store() (metric m%d, id %d) was not in the cache when store() released the lock, although '
                    'the cache is unbounded: it is neither cached nor written nor accounted for' % (m, vid),
                    dict(origin=col.origins[i], lost=tr['lost'], events=[e for e in evs if e['k'] != 'cnt'][:30]), signature='storelost')
    for f in sorted(verdicts[i] & FLAGS[pid]):
      ctx.violation(WHAT[f], dict(origin=col.origins[i], trace=tr, flags=sorted(verdicts[i])), signature=f)
    if 'heldmismatch' in verdicts[i]:
      ctx.note_drift('trace %d: cache contents at the end differ from the judge\'s bookkeeping' % i)


def negative_controls(ctx, col, verdicts):
  pick = None
  for i, tr in enumerate(col.traces):
    if not verdicts[i]:
      for j, e in enumerate(tr['ev']):
        if e['k'] == 'db' and e['op'] == 'write' and e['ok'] and len(e['pts']) >= 1:
          pick = (i, j)
          break
    if pick:
      break
  if not pick:
    if ctx.violations:
      ctx.neg_controls.append(dict(name='skipped: every recorded trace is flagged', rejected=True))
      return
    raise Machinery('no clean trace with a successful write for a negative control')
  i, j = pick
  a = copy.deepcopy(col.traces[i])
  del a['ev'][j]                                    # the write call disappears: batch silently discarded
  b = copy.deepcopy(col.traces[i])
  b['ev'].insert(j + 1, copy.deepcopy(b['ev'][j]))  # the same datapoints written twice
  c = copy.deepcopy(col.traces[i])
  for e in c['ev'][j + 1:]:
    if e['k'] == 'cnt':
      e['committed'] += 1                           # counter off by one
      break
  d = copy.deepcopy(col.traces[i])
  k = max(x for x, e in enumerate(d['ev']) if e['k'] == 'exit')
  stored = [e for e in d['ev'] if e['k'] == 'stored']
  d['ev'] = [e for e in d['ev'] if not (e['k'] == 'drained' and e['m'] == stored[0]['m'])]   # never drained
  v = writersys.judge(ctx, [a, b, c, d], 'negative controls')
  ctx.negative_control('write call removed from a recorded trace', 'silentdiscard' in v[0] or 'counter:committedPoints' in v[0])
  ctx.negative_control('write call duplicated', 'doublewrite' in v[1] or 'foreignwrite' in v[1])
  ctx.negative_control('committedPoints off by one', 'counter:committedPoints' in v[2])
  ctx.negative_control('drain removed: data left in cache at exit', bool(v[3] & {'unflushed', 'foreignwrite', 'heldmismatch'}))


def model_check(ctx, name, consts, invs, must=('Store', 'W_Test', 'W_PassTop', 'W_CreateLoop', 'W_Choose', 'W_Pop', 'W_Exists2', 'W_Write')):
  cfg = tlc.cfg_text(spec='Spec', constants=consts, invariants=invs)
  res = tlc.check_ok(tlc.run('Writer', cfg, ctx.scratch, coverage=True), name)
  ctx.add_tlc(name, res, must_cover=None if res.violated else must)
  return res


# --- conformance of recorded executions to Writer.tla itself (trace validation with silent steps) ---
def conformance(ctx, wm, sink, nworkloads, nrandom, limit, with_stop=True):
  """Executions at lock/backend-call granularity (cache.store is then atomic for the writer, as the
  Store action of Writer.tla is) are validated against Writer.tla by Writer_Trace.tla: every logged
  event must be explained by the corresponding action, TLC fills in the writer's silent steps.
  A rejected trace is reported as drift between code and model (the property verdict stays with
  WriterLin, which judges the same traces through `sink`)."""
  traces, origins = [], []

  def both(tr, origin):
    sink(tr, origin)
    t2 = dict(tr)
    t2['pre'] = [1]
    t2['lag'] = 0
    traces.append(t2)
    origins.append(origin)
  for lim, climit in (((None, None, None), 'FALSE'), ((60, None, None), 'TRUE')):
    wm.configure(*lim)
    first = len(traces)
    for w in range(nworkloads):
      st = cachesys.STRATEGIES[(w + ctx.seed) % len(cachesys.STRATEGIES)]
      cfg = dict(strategy=st, lag=0, buckets=wm.buckets, coarse=True)
      r_ops, _ = cachesys.gen_workload(ctx.rng, nmetrics=3, nts=2, nstores=ctx.rng.choice([3, 4, 5]), ndrains=0, nqueries=0)
      faults = set() if w % 3 == 0 else set(ctx.rng.sample(range(8), ctx.rng.choice([1, 1, 2])))
      ctx.evaluations += explore(ctx, wm, cfg, r_ops, faults, ('m1',), bound=2, nrandom=nrandom, limit=limit, sink=both)
    chunk = traces[first:]
    consts = dict(Metrics='{1,2,3}', Tss='{}', MaxStores=12, MaxFaults=9, CreateLimit=climit, LagConfigured='FALSE',
                  PreExisting='{}', FinalPass='TRUE', WithStop='TRUE')
    cfgt = tlc.cfg_text(spec='TSpec', constants=consts, constraints=['Report'])
    res, done, _ = tlc.validate_batch('Writer_Trace', cfgt, ctx.scratch, chunk, workers=8)
    tlc.check_ok(res, 'Writer_Trace validation')
    ctx.states += res.distinct
    ctx.transitions += res.generated
    rej = [i for i in range(1, len(chunk) + 1) if i not in done]
    ctx.cov['writer_tla_traces_validated'] = ctx.cov.get('writer_tla_traces_validated', 0) + len(chunk)
    ctx.cov['writer_tla_traces_accepted'] = ctx.cov.get('writer_tla_traces_accepted', 0) + len(chunk) - len(rej)
    cfgp = tlc.cfg_text(spec='TSpec', constants=consts, constraints=['Progress'])
    for i in rej[:3]:
      r2, _, _ = tlc.validate_batch('Writer_Trace', cfgp, ctx.scratch, [chunk[i - 1]], workers=1)
      ats = [v[2] for v in tlc.extract_prints(r2.out, 'AT')]
      far = max(ats) if ats else 0
      evs = chunk[i - 1]['ev']
      ctx.note_drift('execution not explained by Writer.tla: no action matches event %d %s (origin %s)' % (
        far, {k: v for k, v in evs[far - 1].items() if k not in ('now', 'idx')} if 0 < far <= len(evs) else '?',
        {k: v for k, v in origins[first + i - 1].items() if k in ('kind', 'forced', 'rseed', 'faults')}))
    if len(rej) > 3:
      ctx.note_drift('%d more executions not explained by Writer.tla' % (len(rej) - 3))
    # binding demonstration: a corrupted recorded field / a removed event must be rejected
    good = next((t for k, t in enumerate(chunk, 1) if k in done and any(e['k'] == 'db' and e['op'] == 'write' and e['ok'] for e in t['ev'])), None)
    if good is None:
      if rej:
        continue
      raise Machinery('no accepted trace with a successful write for the Writer_Trace negative control')
    a = copy.deepcopy(good)
    j = next(k for k, e in enumerate(a['ev']) if e['k'] == 'db' and e['op'] == 'write' and e['ok'])
    a['ev'][j]['pts'] = a['ev'][j]['pts'] + [[999, 999]]
    b = copy.deepcopy(good)
    b['ev'] = [e for k, e in enumerate(b['ev']) if not (e['k'] == 'drained' and e['m'] != 0)][:]
    c = copy.deepcopy(good)
    j = next(k for k, e in enumerate(c['ev']) if e['k'] == 'db' and e['op'] == 'exists' and e['ok'])
    c['ev'][j]['res'] = 1 - c['ev'][j]['res']
    res, done2, _ = tlc.validate_batch('Writer_Trace', cfgt, ctx.scratch, [a, b, c], workers=1)
    tlc.check_ok(res, 'Writer_Trace negative controls')
    ctx.negative_control('Writer_Trace: written points altered', 1 not in done2)
    ctx.negative_control('Writer_Trace: drain events removed', 2 not in done2)
    ctx.negative_control('Writer_Trace: exists() result flipped', 3 not in done2)
  wm.configure(None, None, None)
