"""Shared driver for the writer checks (C03, C04)."""
import copy
import json
import random

from . import writersys, sched, tlc, cachesys
from .core import Machinery

FLAGS = {
  'C03': {'silentdiscard', 'foreignwrite', 'partialwrite', 'doublewrite', 'writebeforecreate',
          'counter:droppedCreates', 'counter:committedPoints', 'counter:creates', 'unreportederror', 'drainmismatch'},
  'C04': {'unflushed'},
}
WHAT = {
  'silentdiscard': 'a drained batch was neither written, counted as a dropped create nor reported as an error',
  'foreignwrite': 'a write call carried datapoints that were not drained for that metric',
  'partialwrite': 'a write call carried only part of the drained batch',
  'doublewrite': 'a datapoint was passed to the backend in more than one write call',
  'writebeforecreate': 'write was called for a metric whose file does not exist',
  'counter:droppedCreates': 'droppedCreates does not match the batches dropped',
  'counter:committedPoints': 'committedPoints does not match the datapoints written',
  'counter:creates': 'creates does not match the files created',
  'unreportederror': 'a backend failure was neither counted in errors nor logged as an error',
  'drainmismatch': 'the batch handed to the writer differs from what the cache held for that metric',
  'unflushed': 'a datapoint accepted before the stop was initiated is still in the cache when the writer thread exits',
}


class Collector(cachesys.Collector):
  pass


def explore(ctx, wm, cfg, r_ops, faults, preexisting, bound, nrandom, limit, sink, segments=None):
  def run_once(chooser):
    run = writersys.WriterRun(wm, cfg, r_ops, faults=faults, preexisting=preexisting)
    tr, log = run.execute(chooser)
    run_once.last = tr
    return log
  base = dict(cfg={k: v for k, v in cfg.items()}, r_ops=r_ops, faults=sorted(faults), preexisting=sorted(preexisting),
              limits=wm.configured)
  n = 0
  for forced, log in sched.explore_bounded(run_once, bound, limit=limit, rng=ctx.rng):
    n += 1
    sink(run_once.last, dict(base, forced=sorted(forced.items()), kind='bounded'))
  for seg in (segments or ()):
    run_once(sched.segment_chooser(seg))
    n += 1
    sink(run_once.last, dict(base, segments=[list(x) for x in seg], kind='segments'))
  for i in range(nrandom):
    seed = ctx.rng.randrange(1 << 30)
    rr = random.Random(seed)
    run_once(sched.random_chooser(rr, switch_p=rr.choice([0.03, 0.1, 0.3])))
    n += 1
    sink(run_once.last, dict(base, rseed=seed, kind='random'))
  return n


def rerun(wm, origin):
  wm.configure(*origin['limits'])
  cfg = dict(origin['cfg'])
  cfg['buckets'] = wm.buckets
  run = writersys.WriterRun(wm, cfg, [tuple(o) for o in origin['r_ops']], faults=set(origin['faults']),
                            preexisting=tuple(origin['preexisting']))
  if origin['kind'] == 'bounded':
    ch = sched.forced_chooser(dict((int(s), t) for s, t in origin['forced']))
  elif origin['kind'] == 'segments':
    ch = sched.segment_chooser([tuple(x) for x in origin['segments']])
  else:
    rr = random.Random(origin['rseed'])
    ch = sched.random_chooser(rr, switch_p=rr.choice([0.03, 0.1, 0.3]))
  tr, log = run.execute(ch)
  return tr


def report(ctx, col, verdicts, pid):
  for i, tr in enumerate(col.traces):
    ctx.traces += 1
    evs = tr['ev']
    nfault = sum(1 for e in evs if e['k'] == 'db' and not e['ok'])
    # non-trivial: the store thread ran between two backend calls of the writer, or a fault was injected,
    # or the stop arrived while data was cached / in the writer's hands
    ks = [e['k'] for e in evs]
    inter = any(ks[j] == 'stored' and 'db' in ks[:j] and 'db' in ks[j:] for j in range(len(ks)))
    if inter or nfault:
      ctx.nontriv(i)
    if nfault:
      ctx.cov['traces_with_faults'] = ctx.cov.get('traces_with_faults', 0) + 1
    for f in sorted(verdicts[i] & FLAGS[pid]):
      ctx.violation(WHAT[f], dict(origin=col.origins[i], trace=tr, flags=sorted(verdicts[i])), signature=f)
    if 'heldmismatch' in verdicts[i]:
      ctx.note_drift('trace %d: cache contents at the end differ from the judge\'s bookkeeping' % i)


def negative_controls(ctx, col, verdicts):
  pick = None
  for i, tr in enumerate(col.traces):
    if not verdicts[i]:
      for j, e in enumerate(tr['ev']):
        if e['k'] == 'db' and e['op'] == 'write' and e['ok'] and len(e['pts']) >= 1:
          pick = (i, j)
          break
    if pick:
      break
  if not pick:
    if ctx.violations:
      ctx.neg_controls.append(dict(name='skipped: every recorded trace is flagged', rejected=True))
      return
    raise Machinery('no clean trace with a successful write for a negative control')
  i, j = pick
  a = copy.deepcopy(col.traces[i])
  del a['ev'][j]                                    # the write call disappears: batch silently discarded
  b = copy.deepcopy(col.traces[i])
  b['ev'].insert(j + 1, copy.deepcopy(b['ev'][j]))  # the same datapoints written twice
  c = copy.deepcopy(col.traces[i])
  for e in c['ev'][j + 1:]:
    if e['k'] == 'cnt':
      e['committed'] += 1                           # counter off by one
      break
  d = copy.deepcopy(col.traces[i])
  k = max(x for x, e in enumerate(d['ev']) if e['k'] == 'exit')
  stored = [e for e in d['ev'] if e['k'] == 'stored']
  d['ev'] = [e for e in d['ev'] if not (e['k'] == 'drained' and e['m'] == stored[0]['m'])]   # never drained
  v = writersys.judge(ctx, [a, b, c, d], 'negative controls')
  ctx.negative_control('write call removed from a recorded trace', 'silentdiscard' in v[0] or 'counter:committedPoints' in v[0])
  ctx.negative_control('write call duplicated', 'doublewrite' in v[1] or 'foreignwrite' in v[1])
  ctx.negative_control('committedPoints off by one', 'counter:committedPoints' in v[2])
  ctx.negative_control('drain removed: data left in cache at exit', bool(v[3] & {'unflushed', 'foreignwrite', 'heldmismatch'}))


def model_check(ctx, name, consts, invs, must=('Store', 'W_Test', 'W_PassTop', 'W_CreateLoop', 'W_Choose', 'W_Pop', 'W_Exists2', 'W_Write')):
  cfg = tlc.cfg_text(spec='Spec', constants=consts, invariants=invs)
  res = tlc.check_ok(tlc.run('Writer', cfg, ctx.scratch, coverage=True), name)
  ctx.add_tlc(name, res, must_cover=None if res.violated else must)
  return res
