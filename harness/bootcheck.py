"""Start-up half of several properties: random carbon.conf files are booted through the real Options.postOptions() and
carbon.service.create<Daemon>Service() (confsys, child process) and Boot.tla judges what the daemon derived and how it
is wired.  Each property's check reports the flags that concern it; the others are noted as drift."""
import os

from . import confsys, tlc
from .core import Machinery

FLAGS = {
  'C01': {'timestamp-resolution', 'did-not-start'},
  'C02': {'cache-limits'},
  'C04': {'cache-limits'},
  'C05': {'destinations', 'replication-setting'},
  'C06': {'destinations', 'replication-setting'},
  'C07': {'queue-limits'},
  'C08': {'forward-all-setting', 'pipeline'},
  'C09': {'queue-limits', 'flow-wiring', 'flow-control-setting'},
  'C10': {'cache-limits', 'flow-control-setting', 'did-not-start'},
  'C12': {'timestamp-resolution', 'lists-not-loaded'},
  'C13': {'unpickler-setting'},
  'C14': {'data-dir'},
  'C15': {'timestamp-resolution', 'message-size-settings'},
  'C17': {'cache-limits', 'lag-setting'},
  'C20': {'create-limit', 'update-limit'},
}
WHAT = {
  'cache-limits': 'the cache limits the daemon derives at start-up are not MAX_CACHE_SIZE / 105 % of it under flow control / 95 % for the low watermark',
  'flow-control-setting': 'USE_FLOW_CONTROL as configured is not what the daemon runs with',
  'create-limit': 'the create bucket the writer builds is not MAX_CREATES_PER_MINUTE tokens refilled at 1/60 of that per second',
  'update-limit': 'the update bucket the writer builds is not MAX_UPDATES_PER_SECOND tokens refilled at that rate',
  'timestamp-resolution': 'MIN_TIMESTAMP_RESOLUTION as configured (default 0 = timestamps untouched) is not what the daemon runs with',
  'lists-not-loaded': 'with USE_WHITELIST the daemon did not load whitelist.conf / blacklist.conf (or loaded them although it is off)',
  'unpickler-setting': 'USE_INSECURE_UNPICKLER as configured is not what the daemon runs with',
  'forward-all-setting': 'FORWARD_ALL as configured is not what the daemon runs with',
  'lag-setting': 'MIN_TIMESTAMP_LAG as configured is not what the daemon runs with',
  'pipeline': 'the processing pipeline (or the pipeline for generated datapoints) is not the one of this daemon type',
  'destinations': 'the relay does not start its destinations as configured, in the configured order',
  'replication-setting': 'REPLICATION_FACTOR / DIVERSE_REPLICAS as configured are not what the router runs with',
  'queue-limits': 'the send-queue limits are not 80 % (low watermark) and 125 % (hard limit under flow control) of MAX_QUEUE_SIZE',
  'message-size-settings': 'MAX_DATAPOINTS_PER_MESSAGE / PICKLE_RECEIVER_MAX_LENGTH are not the configured (default 500 / 2^20) values',
  'flow-wiring': 'cacheFull does not pause the receivers at once / cacheSpaceAvailable does not resume them',
  'data-dir': 'the database plugin does not use the configured (expanded, normalised) LOCAL_DATA_DIR',
  'did-not-start': 'the daemon did not get through its start-up code with a valid configuration',
}
TRUE_SPELLINGS = ['True', 'true', 'yes', 'on', '1']
FALSE_SPELLINGS = ['False', 'false', 'no', 'off', '0']
SECTION = {'carbon-cache': 'cache', 'carbon-relay': 'relay', 'carbon-aggregator': 'aggregator', 'carbon-aggregator-cache': 'aggregator-cache'}


CACHE_PROGRAMS = ['carbon-cache', 'carbon-aggregator-cache']
RELAY_PROGRAMS = ['carbon-relay', 'carbon-aggregator']
ALL_PROGRAMS = ['carbon-cache', 'carbon-aggregator-cache', 'carbon-relay', 'carbon-aggregator']
FOCUS = {
  'C02': CACHE_PROGRAMS, 'C04': CACHE_PROGRAMS, 'C10': CACHE_PROGRAMS, 'C17': CACHE_PROGRAMS, 'C20': CACHE_PROGRAMS, 'C14': CACHE_PROGRAMS,
  'C05': RELAY_PROGRAMS, 'C06': RELAY_PROGRAMS, 'C07': RELAY_PROGRAMS, 'C08': ['carbon-aggregator', 'carbon-aggregator-cache'],
}


def gen_case(rng, k, programs=None, decks=None):
  programs = programs or ALL_PROGRAMS
  program = programs[k % len(programs)]
  decks = decks if decks is not None else {}

  def deal(dim, values):
    # every value of a dimension comes up once per len(values) cases (shuffled decks) - 14 independent draws
    # missed MIN_TIMESTAMP_RESOLUTION = 1 altogether under one seed
    d = decks.setdefault(dim, [])
    if not d:
      d.extend(values)
      rng.shuffle(d)
    return d.pop()
  want = dict(max=deal('max', [0, 3, 6, 20, 12]), flow=deal('flow', [0, 1, 1]), creates=deal('creates', [0, 30, 60, 6]), updates=deal('updates', [500, 7, 1, 50]),
              res=deal('res', [0, 0, 1, 10]), whitelist=deal('whitelist', [0, 1]), insecure=deal('insecure', [0, 0, 1]), forward=deal('forward', [1, 1, 0]),
              lag100=deal('lag100', [0, 0, 200, 250]), rf=deal('rf', [1, 2, 3]), diverse=deal('diverse', [0, 1]), maxq=deal('maxq', [10000, 10, 1, 40]),
              mpm=500, picklemax=2 ** 20, blrules=rng.randint(0, 3), wlrules=rng.randint(0, 2))
  names = ['Relay-B.example', '10.0.0.2', 'alpha', '10.0.0.10', 'Zeta', '10.0.0.1']
  rng.shuffle(names)
  nd = rng.randint(1, 4)
  dests = ['%s:%d:%s' % (names[i], 2004 + (i % 2), rng.choice(['a', 'b', 'c'])) for i in range(nd)]
  want['dests'] = dests
  lines = []

  def opt(key, value, always=False):
    lines.append('%s = %s' % (key, value))
  if want['max']:
    opt('MAX_CACHE_SIZE', want['max'])
  opt('USE_FLOW_CONTROL', rng.choice(TRUE_SPELLINGS if want['flow'] else FALSE_SPELLINGS))
  if want['creates']:
    opt('MAX_CREATES_PER_MINUTE', want['creates'])
  if want['updates'] != 500 or rng.random() < 0.5:
    opt('MAX_UPDATES_PER_SECOND', want['updates'])
  if want['res'] or rng.random() < 0.3:
    opt('MIN_TIMESTAMP_RESOLUTION', want['res'])
  opt('USE_WHITELIST', rng.choice(TRUE_SPELLINGS if want['whitelist'] else FALSE_SPELLINGS))
  if want['insecure'] or rng.random() < 0.5:
    opt('USE_INSECURE_UNPICKLER', rng.choice(TRUE_SPELLINGS if want['insecure'] else FALSE_SPELLINGS))
  if not want['forward'] or rng.random() < 0.6:
    opt('FORWARD_ALL', rng.choice(TRUE_SPELLINGS if want['forward'] else FALSE_SPELLINGS))
  if want['lag100']:
    opt('MIN_TIMESTAMP_LAG', '2.5' if want['lag100'] == 250 else '2')
  opt('REPLICATION_FACTOR', want['rf'])
  opt('DIVERSE_REPLICAS', rng.choice(TRUE_SPELLINGS if want['diverse'] else FALSE_SPELLINGS))
  if want['maxq'] != 10000:
    opt('MAX_QUEUE_SIZE', want['maxq'])
  opt('DESTINATIONS', rng.choice([', ', ',', ' , ']).join(dests))
  if program in ('carbon-relay', 'carbon-aggregator'):
    opt('RELAY_METHOD', 'consistent-hashing')
  tilde = rng.random() < 0.35
  if tilde:
    opt('LOCAL_DATA_DIR', rng.choice(['~/whisper-data', '~/a/../b/data/']))
  rng.shuffle(lines)
  sec = SECTION[program]
  sections = {}
  instance = ''
  if rng.random() < 0.5:
    # an instance section overrides some of the options of the program section (which then holds other values)
    instance = 'b'
    cut = rng.randint(1, len(lines) - 1)
    over = lines[cut:]
    decoys = []
    for l in over:
      key = l.split(' = ')[0]
      decoy = {'MAX_CACHE_SIZE': '50', 'USE_FLOW_CONTROL': 'False' if want['flow'] else 'True', 'MAX_CREATES_PER_MINUTE': '600',
               'MAX_UPDATES_PER_SECOND': '2000', 'MIN_TIMESTAMP_RESOLUTION': '60', 'USE_WHITELIST': 'False' if want['whitelist'] else 'True',
               'USE_INSECURE_UNPICKLER': 'False' if want['insecure'] else 'True', 'FORWARD_ALL': 'False' if want['forward'] else 'True',
               'MIN_TIMESTAMP_LAG': '9', 'REPLICATION_FACTOR': '1' if want['rf'] != 1 else '2', 'DIVERSE_REPLICAS': 'False' if want['diverse'] else 'True',
               'MAX_QUEUE_SIZE': '77', 'DESTINATIONS': '10.9.9.9:2004:z', 'RELAY_METHOD': 'consistent-hashing', 'LOCAL_DATA_DIR': '/nonexistent/x'}.get(key)
      if decoy is not None:
        decoys.append('%s = %s' % (key, decoy))
    sections[sec] = lines[:cut] + decoys
    sections['%s:%s' % (sec, instance)] = over
  else:
    sections[sec] = lines
  # other programs' sections hold other values: nothing of them may leak into this daemon
  for other in ('cache', 'relay', 'aggregator', 'aggregator-cache'):
    if other != sec:
      sections[other] = ['MAX_UPDATES_PER_SECOND = 2000', 'MAX_CREATES_PER_MINUTE = 600', 'MAX_CACHE_SIZE = 99', 'MIN_TIMESTAMP_RESOLUTION = 60',
                         'MAX_QUEUE_SIZE = 123', 'FORWARD_ALL = %s' % ('False' if want['forward'] else 'True')]
  files = {'blacklist.conf': ''.join('^bad%d\\.\n' % i for i in range(want['blrules'])) + '# comment\n',
           'whitelist.conf': ''.join('^ok%d\\.\n' % i for i in range(want['wlrules']))}
  return program, instance, sections, files, want, tilde


def encode(rep, want, tilde):
  s = rep.get('settings', {})

  def x100(v):
    if v == 'inf':
      return -1
    if v == 'MISSING' or v is None or isinstance(v, str):
      return -2
    return int(round(float(v) * 100))

  def b(v):
    return 1 if v is True else 0 if v is False else 2
  booted = 1 if ('exception' not in rep and 'error' not in rep and 'pipeline' in rep) else 0
  cb, ub = rep.get('create_bucket'), rep.get('update_bucket')

  def bucket(bk, scale):
    if bk is None:
      return 0, 0
    cap, rate = bk
    return (-1 if cap == 'inf' else int(round(float(cap)))), (-1 if rate == 'inf' else int(round(float(rate) * scale)))
  ccap, crate = bucket(cb, 3600)        # creates per minute: rate per second * 60 * 60 = per-minute * 60
  ucap, urate = bucket(ub, 60)
  d = rep.get('dir', '')
  datadir_ok = 1
  if tilde:
    lines = [l for sec in rep.get('_sections', {}).values() for l in sec if l.startswith('LOCAL_DATA_DIR')]
    raw = (lines[-1].split(' = ')[1]) if lines else ''
    exp = os.path.normpath(os.path.join(d, 'home', raw[2:])) if raw.startswith('~/') else raw
    datadir_ok = 1 if (rep.get('data_dir') is not None and os.path.normpath(str(rep.get('data_dir'))) == exp) else 0
  got = dict(booted=booted, max100=x100(s.get('MAX_CACHE_SIZE')), hard100=x100(s.get('CACHE_SIZE_HARD_MAX')), low100=x100(s.get('CACHE_SIZE_LOW_WATERMARK')),
             flow=b(s.get('USE_FLOW_CONTROL')), createcap=ccap, createrate60=crate // 60 if crate >= 0 else crate, updatecap=ucap, updaterate60=urate,
             res=s.get('MIN_TIMESTAMP_RESOLUTION') if isinstance(s.get('MIN_TIMESTAMP_RESOLUTION'), int) else -2,
             res_after=rep.get('min_timestamp_resolution_after_service') if isinstance(rep.get('min_timestamp_resolution_after_service'), int) else -2,
             lists=1 if rep.get('whitelist_file') or rep.get('blacklist_file') else 0, blrules=rep.get('blacklist_rules', 0), wlrules=rep.get('whitelist_rules', 0),
             insecure=b(s.get('USE_INSECURE_UNPICKLER')), forward=b(s.get('FORWARD_ALL')), lag100=x100(s.get('MIN_TIMESTAMP_LAG')),
             pipeline=rep.get('pipeline', []), generated=rep.get('generated', []), same_list=1 if rep.get('same_list') else 0,
             dests=[':'.join(x) for x in rep.get('destinations', [])],
             rf=rep.get('router_rf') if isinstance(rep.get('router_rf'), int) else (s.get('REPLICATION_FACTOR') if isinstance(s.get('REPLICATION_FACTOR'), int) else -2),
             diverse=b(rep.get('router_diverse') if rep.get('router_diverse') is not None else s.get('DIVERSE_REPLICAS')),
             qlow100=x100(rep.get('send_queue_low')), qhard100=x100(rep.get('send_queue_hard')),
             mpm=s.get('MAX_DATAPOINTS_PER_MESSAGE') if isinstance(s.get('MAX_DATAPOINTS_PER_MESSAGE'), int) else -2,
             picklemax=s.get('PICKLE_RECEIVER_MAX_LENGTH') if isinstance(s.get('PICKLE_RECEIVER_MAX_LENGTH'), int) else -2,
             full_pauses=1 if rep.get('cachefull_pauses_now') else 0, space_resumes=1 if rep.get('space_resumes_now') else 0, datadir_ok=datadir_ok)
  return got


def section(ctx, pid, ncases=None):
  rng = ctx.rng
  n = ncases if ncases is not None else ctx.pick(14, 60)
  recs, texts = [], []
  off = rng.randrange(4)
  decks = {}
  for k in range(n):
    program, instance, sections, files, want, tilde = gen_case(rng, k + off, FOCUS.get(pid), decks)
    rep = confsys.boot(ctx.scratch, program, sections, instance=instance, files=files, tag='boot')
    rep['_sections'] = {('%s:%s' % (SECTION[program], instance) if instance else SECTION[program]): sections.get('%s:%s' % (SECTION[program], instance), []) + sections[SECTION[program]]} \
      if not instance else {'x': sections[SECTION[program]] + sections['%s:%s' % (SECTION[program], instance)]}
    got = encode(rep, want, tilde)
    w = dict(want)
    if program in ('carbon-cache', 'carbon-aggregator-cache'):
      w['dests'] = []
    recs.append(dict(program=program, want=w, got=got))
    texts.append(dict(program=program, instance=instance, carbon_conf=sections, report={k2: v for k2, v in rep.items() if k2 not in ('settings', 'dir', '_sections', 'traceback')},
                      settings={k2: rep.get('settings', {}).get(k2) for k2 in ('MAX_CACHE_SIZE', 'CACHE_SIZE_HARD_MAX', 'CACHE_SIZE_LOW_WATERMARK', 'USE_FLOW_CONTROL',
                                                                            'MIN_TIMESTAMP_RESOLUTION', 'USE_INSECURE_UNPICKLER', 'FORWARD_ALL', 'MIN_TIMESTAMP_LAG',
                                                                            'MAX_UPDATES_PER_SECOND', 'MAX_CREATES_PER_MINUTE', 'DESTINATIONS', 'REPLICATION_FACTOR')},
                      exception=rep.get('exception'), traceback=rep.get('traceback')))
    ctx.evaluations += 1
  cfg = tlc.cfg_text(spec='Spec', constraints=['Report'])
  res, done, bad = tlc.validate_batch('Boot', cfg, ctx.scratch, recs, workers=2)
  tlc.check_ok(res, 'Boot cases')
  ctx.states += res.distinct
  ctx.transitions += res.generated
  got = {}
  for v in tlc.extract_prints(res.out, 'DONE'):
    got[v[1]] = set()
  for v in tlc.extract_prints(res.out, 'F'):
    got.setdefault(v[1], set()).add(v[2])
  if len(got) != len(recs):
    raise Machinery('Boot: %d of %d cases judged\n%s' % (len(got), len(recs), res.out[-2000:]))
  mine = FLAGS.get(pid, set())
  for i, rec in enumerate(recs):
    ctx.traces += 1
    ctx.nontriv(('boot', i))
    for f in sorted(got[i + 1]):
      if f in mine:
        ctx.violation('start-up: ' + WHAT[f] + ' [%s%s]' % (rec['program'], (' instance ' + texts[i]['instance']) if texts[i]['instance'] else ''),
                      dict(case=texts[i], want=rec['want'], got=rec['got']), signature='boot:' + f)
      else:
        ctx.note_drift('start-up (%s): %s' % (rec['program'], f))
  ctx.cov['boot_cases'] = ctx.cov.get('boot_cases', 0) + len(recs)
  # binding: a corrupted report must be flagged
  import copy
  bad = copy.deepcopy(recs[0])
  bad['got']['pipeline'] = list(bad['got']['pipeline']) + ['relay']
  bad['got']['flow'] = 1 - bad['got']['flow'] if bad['got']['flow'] in (0, 1) else 0
  res, done, b2 = tlc.validate_batch('Boot', cfg, ctx.scratch, [bad], workers=1)
  fl = set(v[2] for v in tlc.extract_prints(res.out, 'F'))
  if not any(got[i + 1] for i in range(len(recs))):
    ctx.negative_control('Boot: a recorded start-up report altered (pipeline, flow control)', {'pipeline', 'flow-control-setting'} <= fl)
