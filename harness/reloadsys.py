"""Reload.tla bound to the real periodic re-read of carbon's list / rules files.

A. TLC: Reload.tla exhaustive (Fresh, FaultKeeps) as the repaired code behaves; the pre-repair behaviour (F20,
   ResetOnAbsent = FALSE) and the seeded fault behaviour (FaultClears = TRUE) must both be rejected (negative controls).
B. spec->code: `tlc -simulate` behaviours are replayed on a fresh real object (RegexList for C12, the aggregation
   RuleManager for C16, the rewrite rule manager for C08): the environment actions write / remove / restore the real file with the modification time of the
   state, every Tick* is one firing of the object's own LoopingCall on a private clock (the first one is read_from()),
   TickFault makes getmtime() raise EACCES for that firing.  After every action the rules in force, observed through
   the object's public behaviour, must be the specification's `inforce`.
"""
import errno
import os

from twisted.internet import task

from . import tlc
from .core import Machinery

CONSTS = dict(Bodies='{1, 2, 3}', MaxTime=4)


class RegexListBinding(object):
  what = 'carbon.regexlist.RegexList'

  def __init__(self, scratch):
    import carbon.regexlist as m
    self.mod = m
    self.obj = m.RegexList()
    self.names = ()

  def body(self, b):
    return '# list %d\n^body%d\\.\n' % (b, b)

  def attach(self, path):
    self.obj.list_file = path

  def first(self, path):
    self.obj.read_from(path)

  def patch(self, f):
    saved = os.path.getmtime
    os.path.getmtime = f
    return lambda: setattr(os.path, 'getmtime', saved)

  def inforce(self):
    hit = [b for b in (1, 2, 3) if ('body%d.x' % b) in self.obj]
    if not hit:
      return 0 if not self.obj else -1
    return hit[0] if len(hit) == 1 else -1


class AggRulesBinding(object):
  what = 'carbon.aggregator.rules.RuleManager'

  def __init__(self, scratch):
    import carbon.aggregator.rules as m
    self.mod = m
    self.obj = m.RuleManager.__class__()

  def body(self, b):
    return '# rules %d\nagg.body%d.<host> (10) = sum in.body%d.<host>\n' % (b, b, b)

  def attach(self, path):
    self.obj.rules_file = path

  def first(self, path):
    self.obj.read_from(path)

  def patch(self, f):
    saved = (self.mod.getmtime, os.path.getmtime)
    self.mod.getmtime = f
    os.path.getmtime = f

    def undo():
      self.mod.getmtime, os.path.getmtime = saved
    return undo

  def inforce(self):
    hit = []
    for b in (1, 2, 3):
      got = [r.get_aggregate_metric('in.body%d.h1' % b) for r in self.obj.rules]
      if any(g == 'agg.body%d.h1' % b for g in got):
        hit.append(b)
    if not hit:
      return 0 if not self.obj.rules else -1
    return hit[0] if len(hit) == 1 else -1


class RewriteBinding(AggRulesBinding):
  what = 'carbon.rewrite._RewriteRuleManager'

  def __init__(self, scratch):
    import carbon.rewrite as m
    self.mod = m
    self.obj = m._RewriteRuleManager()

  def body(self, b):
    return '# rewrite rules %d\n[pre]\nbody%d = got%d\n' % (b, b, b)

  def inforce(self):
    hit = []
    for b in (1, 2, 3):
      name = 'x.body%d.y' % b
      for rule in self.obj.rules('pre'):
        name = rule.apply(name)
      if name == 'x.got%d.y' % b:
        hit.append(b)
    if not hit:
      return 0 if not self.obj.rules('pre') else -1
    return hit[0] if len(hit) == 1 else -1


def _failing(p):
  raise OSError(errno.EACCES, os.strerror(errno.EACCES), p)


def replay_one(binding_cls, scratch, beh, idx):
  """Returns (problem or None, drift list, steps)."""
  b = binding_cls(scratch)
  d = os.path.join(scratch, 'reload')
  os.makedirs(d, exist_ok=True)
  path = os.path.join(d, 'file-%d.conf' % idx)
  if os.path.exists(path):
    os.unlink(path)
  clock = task.Clock()
  b.obj.read_task.clock = clock
  started = False
  drift = []

  def set_file(f):
    if not f['present']:
      if os.path.exists(path):
        os.unlink(path)
      return
    with open(path, 'w') as fh:
      fh.write(b.body(f['body']))
    os.utime(path, (1000.0 + f['mtime'], 1000.0 + f['mtime']))
  set_file(beh[0][1]['file'])
  script = []
  try:
    for act, st in beh[1:]:
      name = act.split('(')[0]
      script.append(act)
      if name in ('Rewrite', 'Restore', 'Remove'):
        set_file(st['file'])
      elif name.startswith('Tick'):
        undo = b.patch(_failing) if name == 'TickFault' else None
        try:
          if not started:
            started = True
            b.first(path)
          else:
            clock.advance(10)
        finally:
          if undo:
            undo()
      else:
        raise Machinery('unknown action %r in a simulated behaviour of Reload.tla' % act)
      obs = b.inforce()
      if obs != st['inforce']:
        return (dict(object=b.what, script=script, observed_in_force=obs, specification=st['inforce'],
                     file=st['file'], rules_last_read=b.obj.rules_last_read), drift, len(script))
      last = b.obj.rules_last_read
      if (0 if not last else int(round(last - 1000.0))) != st['last']:
        drift.append('rules_last_read %r after %s, specification %r' % (last, act, st['last']))
  finally:
    if b.obj.read_task.running:
      b.obj.read_task.stop()
    if os.path.exists(path):
      os.unlink(path)
  return None, drift, len(script)


def check(ctx, kind, as_drift=False):
  binding = dict(regexlist=RegexListBinding, aggrules=AggRulesBinding, rewrite=RewriteBinding)[kind]
  invs = ['TypeOK', 'Fresh']
  # A. the model
  consts = dict(CONSTS, ResetOnAbsent='TRUE', FaultClears='FALSE')
  cfg = tlc.cfg_text(spec='Spec', constants=consts, invariants=invs, properties=['FaultKeeps'])
  res = tlc.check_ok(tlc.run('Reload', cfg, ctx.scratch, workers=4, coverage=True), 'Reload model')
  ctx.add_tlc('Reload.tla (re-read of a list / rules file: Fresh, FaultKeeps; bodies 3, times 4)', res,
              must_cover=['TickAbsent', 'TickUnchanged', 'TickLoad', 'TickFault', 'Rewrite', 'Restore', 'Remove'])
  if res.violated:
    raise Machinery('Reload.tla violates its own invariants:\n%s' % res.out[-2000:])
  for nm, c in (('the pre-repair re-read (rules_last_read survives the removal: F20)', dict(consts, ResetOnAbsent='FALSE')),
                ('a failing getmtime() that clears the rules', dict(consts, FaultClears='TRUE'))):
    r2 = tlc.run('Reload', tlc.cfg_text(spec='Spec', constants=c, invariants=invs, properties=['FaultKeeps']), ctx.scratch, workers=4)
    ctx.negative_control('Reload.tla: ' + nm, bool(r2.violated))
  # B. behaviours replayed on the real object
  n = ctx.pick(150, 1500)
  cfg = tlc.cfg_text(spec='Spec', constants=consts)
  res, behs = tlc.simulate_behaviours('Reload', cfg, ctx.scratch, num=n, depth=14, seed=ctx.seed + 7)
  tlc.check_ok(res, 'Reload simulate')
  if len(behs) < n // 2:
    raise Machinery('Reload simulate: only %d behaviours' % len(behs))
  kinds = set()
  for i, beh in enumerate(behs):
    bad, drift, steps = replay_one(binding, ctx.scratch, beh, i)
    ctx.traces += 1
    ctx.evaluations += steps
    acts = [a.split('(')[0] for a, _ in beh[1:]]
    kinds.update(acts)
    if 'Restore' in acts or 'TickFault' in acts:
      ctx.nontriv(('reload', i))
    for dr in drift[:1]:
      ctx.note_drift('reload: ' + dr)
    if bad and as_drift:
      ctx.note_drift('reload (%s): in force %r, specification %r after %s' % (binding.what, bad['observed_in_force'], bad['specification'], bad['script']))
    elif bad:
      ctx.violation('the list / rules in force after a history of file changes and re-read ticks are not those of the file '
                    '(Reload.tla, replayed on %s)' % binding.what, bad, signature='reload')
  missing = {'TickAbsent', 'TickUnchanged', 'TickLoad', 'TickFault', 'Rewrite', 'Restore', 'Remove'} - kinds
  if missing:
    raise Machinery('Reload replay never took %s' % sorted(missing))
