"""C10 - the cache stays within its configured bound and every refusal is signalled.

Same machinery as C02 with MAX_CACHE_SIZE 1..6 and flow control on/off; the bound is
evaluated at every scheduling point at which the cache lock is free (obs events), the
overflow signal is read from a handler on events.cacheOverflow around every store."""
from . import cachesys, cachecheck


def run(ctx):
  ctx.rule = ('MAX_CACHE_SIZE in 1..6 x flow control on/off x strategies; workloads of MAX+4 stores over 3 metrics x 2 '
              'timestamps (duplicates of cached timestamps while full included) against 2-3 drains; every schedule with '
              '<= k pre-emptions at line granularity then random; non-trivial = overlapping operations')
  ctx.assumptions += ['CACHE_SIZE_HARD_MAX / LOW_WATERMARK are derived as conf.py does (1.05 / 0.95 of MAX_CACHE_SIZE)']
  models, sims, expl = [], [], []
  maxes = ctx.pick([1, 2, 3], [1, 2, 3, 4, 5, 6])
  for mx in maxes:
    for flow in (False, True):
      bound = cachesys.hard_limits(mx, flow)[0]
      sts = cachesys.STRATEGIES if not ctx.quick else [cachesys.STRATEGIES[(mx + int(flow) * 3 + k) % 6] for k in range(2)]
      for st in sts:
        if mx <= 3:
          models.append(('Cache[%s,hard=%d]' % (st, bound),
                         cachesys.model_constants(st, hard=bound, stores=min(6, bound + 3), drains=2, metrics=2, tss=2),
                         cachecheck.INV_C10, ['RefusalNoEffect'], 'Spec'))
          sims.append((st, bound, 0, ctx.pick(25, 200), 18))
        r_ops, w_ops = cachesys.gen_workload(ctx.rng, nmetrics=3, nts=2, nstores=min(8, mx + 4), ndrains=ctx.pick(2, 3),
                                             nqueries=0, ticks=(st == 'timesorted'))
        cfg = dict(strategy=st, max=mx, flow=flow, lag=0, frac=(len(expl) % 2 == 1))      # every other: sub-second float timestamps
        if len(expl) % 3 == 2:
          cfg['via'] = 'processor'      # through CacheFeedingProcessor, one tagged series under several spellings
        expl.append((cfg, r_ops, w_ops, ctx.pick(1, 2), ctx.pick(30, 100), ctx.pick(120, 800)))
  # the band between the soft and the hard limit only exists for MAX_CACHE_SIZE >= 20 (floor(1.05 * MAX) > MAX):
  # operation-granularity schedules of a 25-store workload against MAX_CACHE_SIZE = 20 with flow control
  for k, st in enumerate(cachesys.STRATEGIES if not ctx.quick else cachesys.STRATEGIES[ctx.seed % 2::2]):
    r_ops, w_ops = cachesys.band_workload(ctx.rng)
    expl.append((dict(strategy=st, max=20, flow=True, lag=0, coarse=True), r_ops, w_ops, 0, ctx.pick(3, 12), 2))
    # a non-integer hard limit well above .5 (12 * 1.05 = 12.6): the 13th datapoint does not fit
    r_ops, w_ops = cachesys.band_workload(ctx.rng, nstores=15)
    expl.append((dict(strategy=st, max=12, flow=True, lag=0, coarse=True), r_ops, w_ops, 0, ctx.pick(2, 8), 2))
  # the counters themselves: what was counted is published by the self-metrics report or still in the current interval
  from . import instrsys
  instrsys.section(ctx, 'C10', 'carbon-cache')
  # the limits themselves: what the daemon derives from carbon.conf at start-up (the real CarbonCacheOptions.postOptions in
  # a child process) must be MAX_CACHE_SIZE, or 105 % of it under flow control (and 95 % for the low watermark)
  from . import confsys
  for mx, flow in ((3, False), (3, True), (20, True), (12, True), (100, False)) if ctx.quick else [(m, f) for m in (1, 2, 3, 6, 12, 20, 50, 1000) for f in (False, True)]:
    got = confsys.derive(ctx.scratch, ['MAX_CACHE_SIZE = %d' % mx, 'USE_FLOW_CONTROL = %s' % flow])
    ctx.evaluations += 1
    want_hard = mx * 1.05 if flow else mx
    if 'error' in got or got.get('MAX_CACHE_SIZE') != mx or abs(float(got['CACHE_SIZE_HARD_MAX']) - want_hard) > 1e-9 \
       or abs(float(got['CACHE_SIZE_LOW_WATERMARK']) - mx * 0.95) > 1e-9 or bool(got['USE_FLOW_CONTROL']) != flow:
      ctx.violation('the cache limits carbon-cache derives from carbon.conf (MAX_CACHE_SIZE = %d, USE_FLOW_CONTROL = %s) are not MAX_CACHE_SIZE / '
                    '105 %% of it under flow control: %r' % (mx, flow, got), dict(MAX_CACHE_SIZE=mx, USE_FLOW_CONTROL=flow, derived=got),
                    signature='derived-limits')
  # de-duplicate identical model configurations
  seen, m2 = set(), []
  for m in models:
    if m[0] not in seen:
      seen.add(m[0])
      m2.append(m)
  s2 = list(dict(((s[0], s[1]), s) for s in sims).values())
  cachecheck.run_plan(ctx, 'C10', m2, s2, expl)


def replay(ctx, rp):
  cachecheck.replay(ctx, rp, 'C10')
