"""Deterministic scheduler for real threads running real carbon code.

Exactly one managed thread runs at a time.  A thread hands control back to the
controller at *scheduling points*:
  - 'line' granularity: before every source line of the traced files (sys.settrace)
  - cooperative lock acquire / release, virtual sleep, explicit point() calls
A schedule is the list of the controller's choices, so any execution is replayable
from (workload, schedule).  Exploration: exhaustive with a pre-emption bound
(CHESS-style), then seeded random / PCT-like priority schedules.
"""
import sys
import threading
import _thread


class _Gate(object):
  """Binary hand-off gate on a raw lock (much cheaper than threading.Semaphore)."""
  __slots__ = ('l',)

  def __init__(self):
    self.l = _thread.allocate_lock()
    self.l.acquire()

  def acquire(self, timeout=None):
    if timeout is None:
      self.l.acquire()
      return True
    return self.l.acquire(True, timeout)

  def release(self):
    self.l.release()


class Deadlock(Exception):
  pass


class StepLimit(Exception):
  pass


class Blocked(Exception):
  """a managed thread did not come back to the scheduler: it blocks on something the scheduler does not
  manage (a real lock, a blocking queue operation, ...) that no other thread will ever release"""
  pass


STEP_TIMEOUT = 15.0


class _Kill(BaseException):
  pass


class MThread(object):
  def __init__(self, sched, name, fn):
    self.sched = sched
    self.name = name
    self.fn = fn
    self.gate = _Gate()
    self.done = False
    self.exc = None
    self.waiting_on = None
    self.thread = threading.Thread(target=self._body, name=name, daemon=True)
    self.started = False
    self.steps = 0

  def enabled(self):
    if self.done:
      return False
    w = self.waiting_on
    return w is None or w.owner is None

  def _body(self):
    self.gate.acquire()
    sch = self.sched
    if sch.killing:
      self.done = True
      sch.ctl.release()
      return
    sch._tls.me = self
    if sch.files:
      sys.settrace(self._global_trace)
    try:
      self.fn()
    except _Kill:
      pass
    except BaseException as e:   # escaped exception of the workload itself
      self.exc = e
    finally:
      sys.settrace(None)
      self.done = True
      sch.ctl.release()

  def _global_trace(self, frame, event, arg):
    fn = frame.f_code.co_filename
    if fn in self.sched.files and (self.sched.funcs is None or fn not in self.sched.funcs
                                   or frame.f_code.co_name in self.sched.funcs[fn]):
      if self.sched.opcodes:
        frame.f_trace_opcodes = True
      return self._local_trace
    return None

  def _local_trace(self, frame, event, arg):
    if event == 'line' or event == 'opcode':
      self.sched.last_line[self.name] = (frame.f_code.co_name, frame.f_lineno)
      self.sched._yield(self, 'line')
    return self._local_trace


class CoopLock(object):
  """Replacement for threading.Lock that blocks in the scheduler."""
  def __init__(self, sched, name='lock', on_release=None, on_acquire=None):
    self.sched = sched
    self.name = name
    self.owner = None
    self.on_release = on_release
    self.on_acquire = on_acquire

  def acquire(self, blocking=True, timeout=-1):
    me = self.sched.current()
    if me is None:       # controller / unmanaged thread: nobody else is running
      if self.owner is not None:
        raise Deadlock('unmanaged acquire of held lock')
      self.owner = 'main'
      return True
    self.sched._yield(me, 'acquire')
    while self.owner is not None:
      if not blocking:
        return False
      me.waiting_on = self
      self.sched._yield(me, 'blocked')
    me.waiting_on = None
    self.owner = me.name
    if self.on_acquire:
      self.on_acquire(me.name)
    return True

  def release(self):
    if self.on_release:
      self.on_release(self.owner)
    self.owner = None
    me = self.sched.current()
    if me is not None:
      self.sched._yield(me, 'release')

  def locked(self):
    return self.owner is not None

  __enter__ = acquire

  def __exit__(self, *a):
    self.release()


class Scheduler(object):
  def __init__(self, files=(), opcodes=False, max_steps=20000, funcs=None):
    self.files = set(files)
    self.funcs = funcs       # optional {filename: set of function names}: trace only those functions
    self.opcodes = opcodes
    self.threads = []
    self.ctl = _Gate()
    self._tls = threading.local()
    self.log = []          # (enabled names, chosen, current before, kind)
    self.max_steps = max_steps
    self.killing = False
    self.on_point = None   # callback(thread_name, kind) run in the yielding thread
    self.last = None
    self.last_kind = {}
    self.last_line = {}
    self.voluntary = {'sleep'}   # yield kinds after which switching away is not a pre-emption

  def current(self):
    return getattr(self._tls, 'me', None)

  def spawn(self, name, fn):
    t = MThread(self, name, fn)
    self.threads.append(t)
    return t

  def lock(self, name='lock', **kw):
    return CoopLock(self, name, **kw)

  # called in managed threads
  def _yield(self, me, kind):
    if self.killing:
      raise _Kill()
    if kind != 'blocked':
      # nobody else could run: no choice to make, no hand-off needed
      alone = True
      for t in self.threads:
        if t is not me and t.enabled():
          alone = False
          break
      if alone:
        self.last_kind[me.name] = kind
        if self.on_point:
          self.on_point(me.name, kind)
        return
    self.last_kind[me.name] = kind
    if self.on_point:
      self.on_point(me.name, kind)
    me.steps += 1
    self.ctl.release()
    me.gate.acquire()
    if self.killing:
      raise _Kill()

  def point(self, kind='point'):
    me = self.current()
    if me is not None:
      self._yield(me, kind)

  def sleep_point(self):
    self.point('sleep')

  def run(self, chooser):
    """chooser(step, enabled_names, current_name) -> name.  Returns the schedule log."""
    for t in self.threads:
      t.thread.start()
    cur = None
    step = 0
    try:
      while True:
        enabled = [t for t in self.threads if t.enabled()]
        if not enabled:
          if all(t.done for t in self.threads):
            break
          raise Deadlock('no enabled thread: %s' % [(t.name, t.done, getattr(t.waiting_on, 'name', None)) for t in self.threads])
        if cur is not None and self.last_kind.get(cur) in self.voluntary:
          # a sleeping thread gave the processor up voluntarily: switching away is no pre-emption
          enabled = [t for t in enabled if t.name != cur] + [t for t in enabled if t.name == cur]
          cur = None
        names = [t.name for t in enabled]
        pick = chooser(step, names, cur if cur in names else None)
        t = enabled[names.index(pick)]
        self.log.append((tuple(names), pick, cur if cur in names else None))
        cur = pick
        step += 1
        if step > self.max_steps:
          raise StepLimit('more than %d scheduling steps' % self.max_steps)
        t.gate.release()
        if not self.ctl.acquire(STEP_TIMEOUT):
          self.blocked = t.name
          raise Blocked('thread %s did not reach a scheduling point within %.0f s after %s' % (
            t.name, STEP_TIMEOUT, self.last_line.get(t.name)))
    finally:
      self._kill()
    return self.log

  def _kill(self):
    self.killing = True
    blocked = getattr(self, 'blocked', None)
    for t in self.threads:
      if t.name == blocked:
        continue            # abandoned (daemon thread stuck in a blocking call)
      while not t.done:
        t.gate.release()
        if not self.ctl.acquire(STEP_TIMEOUT):
          break
    for t in self.threads:
      if t.name != blocked:
        t.thread.join(timeout=5)


# -------------------------------------------------------------------------------------
# choosers and exploration

def forced_chooser(forced, default=None):
  """forced: dict step -> thread name.  Default policy: keep running the current
  thread (no pre-emption), else the first enabled."""
  def ch(step, enabled, cur):
    f = forced.get(step)
    if f is not None and f in enabled:
      return f
    if default is not None:
      return default(step, enabled, cur)
    if cur is not None:
      return cur
    return enabled[0]
  return ch


def random_chooser(rng, switch_p=0.15):
  def ch(step, enabled, cur):
    if cur is not None and rng.random() > switch_p:
      return cur
    return rng.choice(enabled)
  return ch


def explore_bounded(run_once, bound, limit=None, rng=None):
  """Pre-emption-bounded exhaustive exploration.
  run_once(chooser) must build a fresh workload, execute it under the chooser and return
  the schedule log.  Yields (forced_dict, log) for every schedule with <= bound
  pre-emptions.  With a `limit` and an `rng` the frontier is sampled uniformly instead of
  depth-first, so a truncated exploration still spreads over the whole execution."""
  frontier = [((), 0)]
  runs = 0
  while frontier:
    if rng is not None and limit is not None:
      k = rng.randrange(len(frontier))
      frontier[k], frontier[-1] = frontier[-1], frontier[k]
    forced, npre = frontier.pop()
    fd = dict((s, t) for s, t in forced)
    log = run_once(forced_chooser(fd))
    runs += 1
    yield fd, log
    if limit is not None and runs >= limit:
      return
    last = forced[-1][0] if forced else -1
    for step in range(len(log) - 1, last, -1):
      enabled, chosen, cur = log[step]
      for t in enabled:
        if t == chosen:
          continue
        pre = 1 if (cur is not None) else 0
        if npre + pre <= bound:
          frontier.append((forced + ((step, t),), npre + pre))


def segment_chooser(segments):
  """segments: list of (thread, nsteps or None=until it finishes/blocks).  Runs the threads
  in that order; afterwards falls back to the non-pre-emptive default."""
  state = dict(i=0, left=None)

  def ch(step, enabled, cur):
    while state['i'] < len(segments):
      th, n = segments[state['i']]
      if state['left'] is None:
        state['left'] = n
      if th in enabled and (state['left'] is None or state['left'] > 0):
        if state['left'] is not None:
          state['left'] -= 1
        return th
      if th in enabled and n is None:
        return th
      state['i'] += 1
      state['left'] = None
    if cur is not None:
      return cur
    return enabled[0]
  return ch


def landmark_chooser(sch_getter, plan, state_pred=None, phase_cap=0):
  """plan: list of (thread, cond).  cond is one of
       ('done',)                     until the thread finishes
       ('line', func, lineno, nth)   until the thread is parked for the nth time (since the phase began)
                                     just before executing that source line
       ('kind', kind, nth)           until the thread is parked for the nth time at a yield of that kind
                                     ('release' = just released the cache lock, 'op' = finished an operation)
       ('pred', name)                until state_pred(name) is true at a scheduling point of that thread
     After the plan: non-pre-emptive default."""
  st = dict(i=0, count=0, steps=0)

  def ch(step, enabled, cur):
    sc = sch_getter()
    while st['i'] < len(plan):
      th, cond = plan[st['i']]
      if th not in enabled or (phase_cap and cond[0] != 'done' and st['steps'] > phase_cap):
        # (a phase whose landmark never comes - e.g. an idle writer that never takes the lock - is abandoned)
        st['i'] += 1
        st['count'] = 0
        st['steps'] = 0
        continue
      if cond[0] == 'line':
        if cur == th and sc.last_kind.get(th) == 'line' and sc.last_line.get(th) == (cond[1], cond[2]):
          st['count'] += 1
          if st['count'] >= cond[3]:
            st['i'] += 1
            st['count'] = 0
            st['steps'] = 0
            continue
      elif cond[0] == 'kind':
        if cur == th and sc.last_kind.get(th) == cond[1]:
          st['count'] += 1
          if st['count'] >= cond[2]:
            st['i'] += 1
            st['count'] = 0
            st['steps'] = 0
            continue
      elif cond[0] == 'pred':
        if state_pred(cond[1]) and sc.last_kind.get(th) in ('op', None, 'line'):
          st['i'] += 1
          st['count'] = 0
          st['steps'] = 0
          continue
      st['steps'] += 1
      return th
    if cur is not None:
      return cur
    return enabled[0]
  return ch
