"""The real listeners (MetricLineReceiver, MetricDatagramReceiver, MetricPickleReceiver) fed
with concrete byte streams under chosen segmentations; recorded for Wire_Trace.tla."""
import math
import pickle
import random
import struct

from twisted.internet.testing import StringTransport

from . import env, tlc
from .core import Machinery

PICKLE_MAX = 400


class WireModules(object):
  def __init__(self, scratch):
    self.settings = env.bootstrap(scratch)
    s = self.settings
    s['USE_WHITELIST'] = False
    s['MIN_TIMESTAMP_RESOLUTION'] = 0
    s['METRIC_CLIENT_IDLE_TIMEOUT'] = None
    s['TCP_KEEPALIVE'] = False
    s['USE_FLOW_CONTROL'] = False
    s['USE_INSECURE_UNPICKLER'] = False
    s['PICKLE_RECEIVER_MAX_LENGTH'] = PICKLE_MAX
    s['MAX_RECEIVER_CONNECTIONS'] = float('inf')
    import carbon.events
    import carbon.state
    import carbon.instrumentation
    import carbon.protocols
    carbon.state.events = carbon.events
    carbon.state.instrumentation = carbon.instrumentation
    self.events, self.state, self.protocols = carbon.events, carbon.state, carbon.protocols
    self.instrumentation = carbon.instrumentation
    self.base = list(carbon.events.metricReceived.handlers)


# ---- datapoints ---------------------------------------------------------------------
NAME_CHARS = 'abcXYZ019._-/:;=~[]{}()%$#@!^&*+|<>?,' + 'é' + '中' + '𝄞' + 'ß'


def gen_name(rng):
  n = rng.choice([1, 2, 5, 12, 40])
  return ''.join(rng.choice(NAME_CHARS) for _ in range(n))


def gen_ts(rng):
  r = rng.random()
  if r < 0.3:
    return float(rng.randint(0, 2 ** 31))
  if r < 0.5:
    return float(rng.randint(2 ** 31, 2 ** 32 - 1))
  if r < 0.8:
    return rng.random() * 2 ** 31
  if r < 0.9:
    return 0.0
  return float(rng.randint(0, 100)) + 0.5


def gen_value(rng):
  r = rng.random()
  if r < 0.2:
    return float(rng.randint(-1000, 1000))
  if r < 0.3:
    return rng.choice([float('inf'), float('-inf'), -0.0, 0.0, 5e-324, 1.7976931348623157e308, 2.0 ** 53 + 2])
  if r < 0.6:
    return struct.unpack('>d', struct.pack('>Q', rng.getrandbits(64)))[0] if True else 0.0
  if r < 0.8:
    return rng.random() * 10 ** rng.randint(-12, 12)
  return rng.randint(-10 ** 6, 10 ** 6)     # a python int


_counter = [0]
SPECIAL_VALUES = [float('inf'), float('-inf'), -0.0, 0.0, 5e-324, 1.7976931348623157e308, 2.0 ** 53 + 2, -1.0, 10 ** 15, 1e-7, -2.5e-10]


def gen_datapoint(rng):
  while True:
    v = gen_value(rng)
    if isinstance(v, float) and v != v:
      continue          # NaN is C12's
    _counter[0] += 1
    if _counter[0] % 4 == 0:       # every run covers every special value, whatever the seed
      v = SPECIAL_VALUES[(_counter[0] // 4) % len(SPECIAL_VALUES)]
    return (gen_name(rng) + 'n%d' % _counter[0], gen_ts(rng), v)


def key_of(dp):
  return (dp[0], struct.pack('>d', float(dp[1])), struct.pack('>d', float(dp[2])))


def same(a, b):
  """bit-identical name / timestamp / value (ints are delivered as the float of the int)"""
  if a[0] != b[0]:
    return False
  for x, y in ((a[1], b[1]), (a[2], b[2])):
    if struct.pack('>d', float(x)) != struct.pack('>d', float(y)):
      return False
  return True


def line_of(dp, rng=None):
  name, ts, v = dp
  vs = repr(v) if isinstance(v, float) else str(v)
  sep1 = ' ' if rng is None else rng.choice([' ', ' ', '  ', '\t'])
  end = '\n' if rng is None else rng.choice(['\n', '\n', '\r\n'])
  return ('%s%s%s %s%s' % (name, sep1, vs, repr(ts), end)).encode('utf-8')


def pickle_frame(dps, proto):
  payload = pickle.dumps([(n, (ts, v)) for n, ts, v in dps], protocol=proto)
  return struct.pack('!L', len(payload)) + payload


def py2_pickle_frame(dps):
  """the frame a Python 2 relay sends (protocol 2): metric names are byte strings (SHORT_BINSTRING / BINSTRING
  holding UTF-8), numbers BINFLOAT / BININT / LONG1"""
  out = [b'\x80\x02]q\x00(']
  for n, ts, v in dps:
    nb = n.encode('utf-8')
    out.append((b'U' + bytes([len(nb)])) if len(nb) < 256 else (b'T' + struct.pack('<i', len(nb))))
    out.append(nb)
    for x in (ts, v):
      if isinstance(x, float):
        out.append(b'G' + struct.pack('>d', x))
      elif -2 ** 31 <= x < 2 ** 31:
        out.append(b'J' + struct.pack('<i', x))
      else:
        raw = x.to_bytes((x.bit_length() + 8) // 8, 'little', signed=True)
        out.append(b'\x8a' + bytes([len(raw)]) + raw)
    out.append(b'\x86\x86')
  out.append(b'e.')
  payload = b''.join(out)
  return struct.pack('!L', len(payload)) + payload


# ---- malformed frames (C11) ---------------------------------------------------------
# (no bytes objects: protocol 2 pickles them through the global _codecs.encode, which makes the whole frame a rejected pickle)
BAD_ENTRIES = [(None, (1.0, 2.0)), (5, (1.0, 2.0)), (3.5, (1.0, 2.0)), (('t',), (1.0, 2.0)), ('a', ('x', 2.0)),
               ('a', (None, 2.0)), ('a', ([1], 2.0)), ('a', (1.0, {})), ('a', (1.0, 'y')), ('a', (10 ** 400, 2)),
               ('a', (2, 10 ** 400)), ('a', (-10 ** 400, 1)), ('a', 1.0, 2.0), ('a',), 1, None, ('a', (1.0,)),
               ('a', (1.0, 2.0, 3.0)), ('a', (float('nan'), 2.0)), ('a', (float('inf'), 2.0)), ('a', ()), (), 'str', ('a', None)]


def mixed_pickle_frame(rng, dps):
  """one pickle frame whose entry list interleaves the well-formed datapoints `dps` with malformed entries:
  the frame must deliver exactly `dps`, in order"""
  entries = [(n, (ts, v)) for n, ts, v in dps]
  kinds = []
  for _ in range(rng.randint(1, 3)):
    be = rng.choice(BAD_ENTRIES)
    entries.insert(rng.randint(0, len(entries)), be)
    kinds.append(repr(be)[:24])
  if rng.random() < 0.5:       # a malformed entry first, so that every good one comes after it
    entries.insert(0, rng.choice(BAD_ENTRIES))
  payload = pickle.dumps(entries, protocol=2)
  return struct.pack('!L', len(payload)) + payload, 'mixed-entries'


_DECKS = {}


def deal(rng, key, values):
  """every value comes up once per cycle (shuffled decks per key): a quick run covers every kind for every listener,
  whatever the seed"""
  d = _DECKS.setdefault(key, [])
  if not d:
    d.extend(values)
    rng.shuffle(d)
  return d.pop()


def bad_line(rng, key='line'):
  k = deal(rng, ('bad_line', key), ['utf8', 'utf8b', 'fields2', 'fields4', 'number', 'nants', 'infts', 'empty', 'neginf', 'hugets',
                                    'longbad', 'longutf8', 'twice', 'twice'])
  if k == 'twice':
    # the same malformed text several times in a row (a sender stuck on a bad value): every copy is skipped
    bad = rng.choice([b'tw.x 2 10x00\n', b'tw.y abc 1500000000\n', b'tw.z 1 1e999x\n', b'tw.w 3 --5\n', b'tw.v 1\n'])
    return bad * rng.randint(2, 3), k
  if k == 'longbad':
    return b'x' * rng.randint(401, 900) + rng.choice([b' 1\n', b' a b\n', b'\n']), k
  if k == 'longutf8':
    return b'y' * rng.randint(380, 500) + rng.choice([b'\xff', b'\xc3', b'\xed\xa0\x80']) + b'z' * rng.randint(0, 60) + rng.choice([b' 1 2\n', b'\n']), k
  if k == 'utf8':
    return b'a\xffb 1 2\n', k
  if k == 'utf8b':
    return rng.choice([b'\xc3 1 2\n', b'a\x80 1 2\n', b'\xed\xa0\x80 1 2\n', b'\xc0\xaf 1 2\n']), k
  if k == 'fields2':
    return b'a.b 1\n', k
  if k == 'fields4':
    return b'a.b 1 2 3\n', k
  if k == 'number':
    return rng.choice([b'a.b x 2\n', b'a.b 1 y\n', b'a.b 1,5 2\n', b'a.b 0x10 2\n']), k
  if k == 'nants':
    return b'a.b 1 nan\n', k
  if k == 'infts':
    return b'a.b 1 inf\n', k
  if k == 'neginf':
    return b'a.b 1 -inf\n', k
  if k == 'hugets':
    return b'a.b 1 1e999\n', k
  return rng.choice([b'\n', b'   \n', b'\r\n']), k


def bad_pickle(rng):
  k = deal(rng, ('bad_pickle',), ['garbage', 'trunc', 'notlist', 'notiter', 'shape', 'types', 'name', 'global', 'nants', 'infts',
                                  'cross', 'cross', 'hugeint'])
  if k == 'cross':
    names = [None, 5, b'bytes', ('t',), ('a', 'b'), (), ['l'], {'d': 1}, 3.5, True, 'ok']
    vals = [('x', 2.0), (None, 2.0), ([1], 2.0), (1.0, {}), (1.0, 'y'), ((), ()), (10 ** 400, 2), (2, 10 ** 400), (1.0, 2.0), (float('nan'), float('inf'))]
    while True:
      nm, vv = rng.choice(names), rng.choice(vals)
      if not (nm == 'ok' and vv == (1.0, 2.0)):
        break
    p = pickle.dumps([(nm, vv)], protocol=2)
    return struct.pack('!L', len(p)) + p, 'cross:%s/%s' % (type(nm).__name__, '+'.join(type(x).__name__ for x in vv))
  if k == 'hugeint':
    p = pickle.dumps([('b', rng.choice([(10 ** 400, 2), (2, 10 ** 400), (-10 ** 400, 1)]))], protocol=2)
    return struct.pack('!L', len(p)) + p, k
  if k == 'garbage':
    p = bytes(rng.getrandbits(8) for _ in range(rng.randint(1, 30)))
  elif k == 'trunc':
    full = pickle.dumps([('a', (1.0, 2.0)), ('b', (3.0, 4.0))], protocol=2)
    p = full[:rng.randint(1, len(full) - 1)]
  elif k == 'notlist':
    p = pickle.dumps(rng.choice([{'a': 1}, 'text', b'bytes', ((1, 2),)]), protocol=2)
  elif k == 'notiter':
    p = pickle.dumps(rng.choice([5, None, 3.5, True]), protocol=2)
  elif k == 'shape':
    p = pickle.dumps(rng.choice([[('a', 1.0, 2.0)], [('a',)], [1, 2], [('a', (1.0,))], [None], [('a', (1.0, 2.0, 3.0))]]), protocol=2)
  elif k == 'types':
    p = pickle.dumps(rng.choice([[('a', ('x', 2.0))], [('a', (None, 2.0))], [('a', ([1], 2.0))], [('a', (1.0, {}))]]), protocol=2)
  elif k == 'name':
    p = pickle.dumps(rng.choice([[(None, (1.0, 2.0))], [(5, (1.0, 2.0))], [(b'bytes', (1.0, 2.0))], [(('t',), (1.0, 2.0))]]), protocol=2)
  elif k == 'global':
    p = b'cos\nsystem\n(S\'true\'\ntR.'
  elif k == 'nants':
    p = pickle.dumps([('a', (float('nan'), 2.0))], protocol=2)
  else:
    p = pickle.dumps([('a', (float('inf'), 2.0))], protocol=2)
  return struct.pack('!L', len(p)) + p, k


def _failing_subscriber(tag, metric, datapoint):
  raise RuntimeError('subscriber failure (injected)')


class Run(object):
  def __init__(self, wm, proto, pickle_max=2 ** 20, flow=False, idle=None, failing=False):
    self.wm, self.proto = wm, proto
    wm.settings['METRIC_CLIENT_IDLE_TIMEOUT'] = idle     # read when a connection is made / a datapoint arrives
    from twisted.internet import task as _task
    self.clock = _task.Clock()
    wm.settings['USE_FLOW_CONTROL'] = flow             # read in connectionMade
    wm.settings['PICKLE_RECEIVER_MAX_LENGTH'] = pickle_max     # read by the receiver's constructor
    self.seen = []
    wm.events.metricReceived.handlers[:] = list(wm.base)
    if failing:
      # another subscriber of the event fails for every datapoint (a callable without __name__): the event
      # dispatcher isolates it - the listener is not affected and the other subscribers still get the datapoint
      import functools
      wm.events.metricReceived.addHandler(functools.partial(_failing_subscriber, 'x'))
    wm.events.metricReceived.addHandler(lambda m, dp: self.seen.append((m, dp[0], dp[1])))
    wm.state.connectedMetricReceiverProtocols.clear()
    wm.state.metricReceiversPaused = False
    self.tr = StringTransport()
    if proto == 'line':
      self.r = wm.protocols.MetricLineReceiver()
      self.r.makeConnection(self.tr)
    elif proto == 'pickle':
      self.r = wm.protocols.MetricPickleReceiver()
      self.r.makeConnection(self.tr)
    else:
      self.r = wm.protocols.MetricDatagramReceiver()       # as CarbonService.startService creates it: no connectionMade(), no peerName
      # the UDP port: there is no connection that an idle timeout could close
      self.tr.stopListening = self.tr.loseConnection
      self.r.transport = self.tr
    self.r.callLater = self.clock.callLater               # TimeoutMixin's timer runs on the virtual clock

  def feed(self, chunk):
    esc = 0
    try:
      if self.proto == 'udp':
        self.r.datagramReceived(chunk, ('127.0.0.1', 9999))
      else:
        self.r.dataReceived(chunk)
    except Exception as e:
      esc = 1
      self.last_exc = repr(e)
    return esc

  def disconnect(self):
    """the client goes away: the receiver's connectionLost() must complete (and unregister the receiver) whatever was
    sent on the connection"""
    if self.proto == 'udp' or getattr(self, 'gone', False):
      return 0
    self.gone = True
    from twisted.internet.error import ConnectionDone
    from twisted.python.failure import Failure
    try:
      self.r.connectionLost(Failure(ConnectionDone()))
    except Exception as e:
      self.last_exc = repr(e)
      return 1
    return 1 if self.r in self.wm.state.connectedMetricReceiverProtocols else 0

  def close(self):
    self.wm.events.metricReceived.handlers[:] = list(self.wm.base)
    self.wm.state.connectedMetricReceiverProtocols.clear()
    for ev, fn in ((self.wm.events.pauseReceivingMetrics, getattr(self.r, 'pauseReceiving', None)),
                   (self.wm.events.resumeReceivingMetrics, getattr(self.r, 'resumeReceiving', None))):
      while fn is not None and fn in ev.handlers:
        ev.handlers.remove(fn)
    self.wm.state.metricReceiversPaused = False
    self.wm.settings['METRIC_CLIENT_IDLE_TIMEOUT'] = None
    try:
      self.r.setTimeout(None)
    except Exception:
      pass


def execute(wm, proto, frames, cuts, expected_dps, res=0, pause_at=0, idle=None, failing=False):
  """frames: list of dict(bytes, kind, trip, dps); cuts: byte offsets (sorted) where the stream is cut
  (for udp: datagram boundaries, aligned with frames).  Returns the trace record."""
  stream = b''.join(f['bytes'] for f in frames)
  # the default maximum frame length unless the stream contains an over-long frame (kept small on purpose)
  run = Run(wm, proto, pickle_max=PICKLE_MAX if any(f['kind'] == 'over' or f.get('exact') for f in frames) else 2 ** 20, flow=bool(pause_at), idle=idle, failing=failing)
  segs = []
  allids = {}
  nid = 0
  fr = []
  for f in frames:
    ids = []
    for dp in f['dps']:
      nid += 1
      allids[nid] = dp
      ids.append(nid)
    fr.append(dict(len=len(f['bytes']), kind=f['kind'], trip=f.get('trip', len(f['bytes'])), ids=ids, what=f.get('what', '')))
  index = {}
  for i, dp in allids.items():
    # names are unique per datapoint, so the content identifies the id; with MIN_TIMESTAMP_RESOLUTION
    # the delivered timestamp is the sent one rounded down to a multiple of it (C12)
    if res:
      dp = (dp[0], int(dp[1]) // res * res, dp[2])
    index.setdefault(key_of(dp), []).append(i)       # the very same datapoint may be sent more than once
  bounds = [0] + list(cuts) + [len(stream)]
  nseen = 0
  used = {}
  wm.settings['MIN_TIMESTAMP_RESOLUTION'] = res
  if pause_at:
    # flow control: while the pause_at-th datapoint is being handled the cache reports full and the real
    # events.pauseReceivingMetrics() pauses this receiver; it is resumed (cache drained) once the read in
    # progress has been handled.  What is complete by then must be delivered by then.
    def pauser(m, dp):
      if len(run.seen) == pause_at:
        wm.events.pauseReceivingMetrics()
    wm.events.metricReceived.addHandler(pauser)
  try:
    for a, b in zip(bounds[:-1], bounds[1:]):
      if b <= a:
        continue
      esc = run.feed(stream[a:b])
      if idle:
        # TCP: the next segment arrives well within the idle timeout; UDP: long after it (no connection to expire)
        try:
          run.clock.advance(idle * 3 if proto == 'udp' else idle / 4.0)
        except Exception:
          esc = 1
      if pause_at and wm.state.metricReceiversPaused:
        try:
          wm.events.resumeReceivingMetrics()
        except Exception as e:
          esc = 1
      new = run.seen[nseen:]
      ids = []
      for dp in new:
        lst = index.get(key_of(dp))
        if not lst:
          ids.append(0)
        else:
          k = used.get(key_of(dp), 0)
          used[key_of(dp)] = k + 1
          ids.append(lst[k] if k < len(lst) else lst[-1])
      nseen = len(run.seen)
      segs.append(dict(n=b - a, delivered=ids, escaped=esc, closed=1 if run.tr.disconnecting else 0))
      if run.tr.disconnecting:
        break       # a real transport stops reading once loseConnection() was called
    if segs and run.disconnect():
      segs[-1]['escaped'] = 1        # the end of the connection is part of handling what was sent on it
  finally:
    run.close()
    wm.settings['MIN_TIMESTAMP_RESOLUTION'] = 0
  return dict(proto=proto, mode='frames', ref=[], refclosed=0, frames=fr, segs=segs)


def judge(ctx, traces, what):
  cfg = tlc.cfg_text(spec='TSpec', constants=dict(MaxFrames=1, MaxLen=1), constraints=['Report'])
  out = {}
  CH = 400
  for k in range(0, len(traces), CH):
    chunk = traces[k:k + CH]
    res, done, bad = tlc.validate_batch('Wire_Trace', cfg, ctx.scratch, chunk, workers=4)
    tlc.check_ok(res, what)
    ctx.states += res.distinct
    ctx.transitions += res.generated
    got = {}
    for v in tlc.extract_prints(res.out, 'DONE'):
      got[v[1]] = set()
    for v in tlc.extract_prints(res.out, 'F'):
      got.setdefault(v[1], set()).add(v[2])
    if len(got) != len(chunk):
      raise Machinery('%s: %d of %d traces judged\n%s' % (what, len(got), len(chunk), res.out[-2500:]))
    for i in range(1, len(chunk) + 1):
      out[k + i - 1] = got[i]
  return out


def all_cuts(n, rng, budget, priority=()):
  """segmentations of a stream of n bytes: no cut, every `priority` position alone (frame boundaries +-4
  bytes, i.e. inside length prefixes, and inside multi-byte characters), all-1-byte segments, every other
  single cut while the budget lasts, then pairs of priority cuts and random multi-cuts"""
  pri = sorted(set(c for c in priority if 0 < c < n))
  out = [[], list(range(1, n))] if n > 1 else [[]]
  out += [[c] for c in pri]
  rest = [[c] for c in range(1, n) if c not in set(pri)]
  rng.shuffle(rest)
  out += rest[:max(0, budget - len(out))]
  extra = max(4, budget // 6)
  for _ in range(extra):
    if n <= 2:
      break
    if pri and rng.random() < 0.6:
      k = rng.randint(2, min(5, len(pri) + 1))
      cs = set(rng.sample(pri, min(k, len(pri))))
      if rng.random() < 0.5:
        cs.add(rng.randint(1, n - 1))
    else:
      k = rng.randint(2, min(8, n - 1))
      cs = set(rng.sample(range(1, n), k))
    out.append(sorted(cs))
  return out


def priority_cuts(frames):
  """positions worth cutting at: around every frame boundary (inside a 4-byte length prefix) and inside
  every multi-byte UTF-8 character"""
  pri = set()
  pos = 0
  for f in frames:
    b = f['bytes']
    for d in range(-4, 6):
      pri.add(pos + d)
    for i, byte in enumerate(b):
      if byte >= 0x80:
        pri.add(pos + i)
        pri.add(pos + i + 1)
    pos += len(b)
  return pri


def execute_raw(wm, proto, stream, cuts, index):
  """a stream without known frame structure; ids via `index` (content -> id of the original datapoints)"""
  run = Run(wm, proto)
  segs = []
  bounds = [0] + list(cuts) + [len(stream)]
  nseen = 0
  try:
    for a, b in zip(bounds[:-1], bounds[1:]):
      if b <= a:
        continue
      esc = run.feed(stream[a:b])
      new = run.seen[nseen:]
      nseen = len(run.seen)
      ids = [index.get(key_of(dp), 0) if not (dp[1] != dp[1] or dp[2] != dp[2]) else 0 for dp in new]
      segs.append(dict(n=b - a, delivered=ids, escaped=esc, closed=1 if run.tr.disconnecting else 0))
      if run.tr.disconnecting:
        break       # a real transport stops reading once loseConnection() was called
  finally:
    run.close()
  return segs


def mutate(stream, rng):
  b = bytearray(stream)
  for _ in range(rng.randint(1, 3)):
    r = rng.random()
    if not b:
      break
    i = rng.randrange(len(b))
    if r < 0.4:
      b[i] ^= 1 << rng.randrange(8)
    elif r < 0.6:
      del b[i]
    elif r < 0.8:
      b.insert(i, rng.getrandbits(8))
    else:
      b[i] = rng.choice([0x0a, 0x20, 0xff, 0x00, 0x80, 0x2e])
  return bytes(b)
