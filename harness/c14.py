"""C14 - no metric name can place a file outside the data directory.

A. TLC: Path.tla enumerates EVERY metric name up to MaxLen over the alphabet
   { . / ; = ~ _ a b <unicode> } (one initial state per name): ConfinedAll, CeresOK, Injective.
B/C. Every such name (and random longer / arbitrary-unicode ones) is concretised and passed to
   the real WhisperDatabase.getFilesystemPath (whisper stubbed) and CeresDatabase.encode, and a
   file is actually created through WhisperDatabase.create in a scratch data directory; the
   observed path, symbolised by character class, must equal Path!WhisperPath and be Confined,
   the created file's realpath must lie under the data directory, decode(encode(n)) = n for
   segmented names.  Both TAG_HASH_FILENAMES values.
"""
import hashlib
import itertools
import os
import random
import shutil

from . import env, tlc
from .core import Machinery

SYM = {'.': 1, '/': 2, ';': 3, '=': 4, '~': 5, '_': 6, 'a': 7, 'b': 8, 'D': 10, 'O': 11, 'T': 12}
CHARS = {1: '.', 2: '/', 3: ';', 4: '=', 5: '~', 6: '_', 7: 'a', 8: 'b', 9: 'é'}
PROP = {'path', 'escapes', 'ceres-path', 'file-outside-data-dir', 'not-injective', 'nondeterministic'}
WHAT = {
  'path': 'the Whisper file path differs from data_dir + encode(metric) + .wsp',
  'escapes': 'the Whisper file path, normalised, does not lie inside the data directory',
  'ceres-path': 'the Ceres node path differs from encode(metric)',
  'file-outside-data-dir': 'creating the metric through the database plugin produced a file outside the data directory',
  'not-injective': 'decode(encode(name)) differs from name for a name of non-empty dot-separated segments',
  'nondeterministic': 'the same name was mapped to two different paths',
}


class EscapeAttempt(Exception):
  pass


def sym_of_char(c):
  if c in SYM:
    return SYM[c]
  if c.isalpha() and ord(c) < 128:
    return 7 if c.lower() < 'n' else 8
  return 9


def symbolise(text):
  return [sym_of_char(c) for c in text]


def symbolise_path(path, root, name):
  """observed path -> symbols (ROOT, TAGGED, HASH3, HASHFULL, EXT recognised structurally)"""
  out = []
  p = path
  if p.startswith(root + '/'):
    out += [30, 2]
    p = p[len(root) + 1:]
  ext = False
  if p.endswith('.wsp'):
    ext = True
    p = p[:-4]
  h = hashlib.sha256(name.encode('utf8')).hexdigest()
  if p.startswith('_tagged/'):
    parts = p.split('/', 3)
    if len(parts) == 4 and parts[1] == h[0:3] and parts[2] == h[3:6]:
      out += [20, 2, 21, 2, 21, 2]
      out += [22] if parts[3] == h else symbolise(parts[3])
    else:
      out += symbolise(p)
  else:
    out += symbolise(p)
  if ext:
    out.append(23)
  return out


def symbolise_ceres(node, name):
  h = hashlib.sha256(name.encode('utf8')).hexdigest()
  if node.startswith('_tagged.'):
    parts = node.split('.', 3)
    if len(parts) == 4 and parts[1] == h[0:3] and parts[2] == h[3:6]:
      return [20, 1, 21, 1, 21, 1] + ([22] if parts[3] == h else symbolise(parts[3]))
  return symbolise(node)


def concurrent_paths(ctx, database, settings, root):
  """The writer thread and the reactor thread (management get/setMetadata) ask for paths concurrently:
  every answer must be the one a single-threaded call gives (the mapping is a function of the name)."""
  from . import sched
  import carbon.util as util
  files = {database.__file__.replace('.pyc', '.py'), util.__file__.replace('.pyc', '.py')}
  plans = [
    (['zz.old'], [('A', ['a.b.c']), ('B', ['a.b.c'])]),
    (['zz.old;t=1'], [('A', ['m;x=1', 'n.o']), ('B', ['n.o', 'm;x=1'])]),
    ([], [('A', ['p.q', 'r;k=v', 'p.q']), ('B', ['r;k=v', 'p.q', 's..t'])]),
  ]
  nruns = 0
  for hash_only in (False, True):
    settings['TAG_HASH_FILENAMES'] = hash_only
    ref = database.WhisperDatabase(settings)
    for pre, threads in plans:
      expect = {}
      for _, names in threads:
        for n in names:
          expect[n] = database.WhisperDatabase(settings).getFilesystemPath(n)

      def run_once(chooser):
        wdb = database.WhisperDatabase(settings)
        for n in pre:
          wdb.getFilesystemPath(n)
        got = []
        sc = sched.Scheduler(files=files, max_steps=20000)
        for tname, names in threads:
          def body(tname=tname, names=names):
            for n in names:
              got.append((tname, n, wdb.getFilesystemPath(n)))
          sc.spawn(tname, body)
        log = sc.run(chooser)
        for t in sc.threads:
          if t.exc is not None:
            got.append((t.name, '<exception>', repr(t.exc)))
        run_once.got = got
        return log
      for forced, log in sched.explore_bounded(run_once, 2, limit=ctx.pick(150, 1500), rng=ctx.rng):
        nruns += 1
        for tname, n, path in run_once.got:
          if expect.get(n) != path:
            ctx.violation('getFilesystemPath(%r) returned %r to thread %s while another thread was inside the path functions; '
                          'single-threaded it returns %r: the name-to-file mapping is not a function of the name' % (n, path, tname, expect.get(n)),
                          dict(threads=threads, earlier_calls=pre, forced=sorted(forced.items()), tag_hash_filenames=hash_only),
                          signature='nondeterministic')
  ctx.evaluations += nruns
  ctx.cov['concurrent_path_schedules'] = nruns


def run(ctx):
  ctx.rule = ('every name up to length 4 (quick) / 5 (thorough) over 9 symbols plus random names up to length 60 over the '
              'same classes and arbitrary NUL-free unicode, both TAG_HASH_FILENAMES values; plus two threads asking for paths concurrently (all schedules with <= 2 pre-emptions at line granularity over database.py/util.py); non-trivial = name containing a '
              'separator, a dot or a semicolon')
  ctx.assumptions += ['whisper and ceres are stubbed (not installed): only carbon\'s own path functions and plugin glue run',
                      'the sha256 prefix of tagged names is checked by the harness (value oracle), abstract in the spec']
  ctx.value_oracles.append('sha256 of the tagged metric name')
  cfg = tlc.cfg_text(spec='Spec', constants=dict(MaxLen=ctx.pick(4, 6), Mode='"model"'),
                     invariants=['ConfinedAll', 'CeresOK', 'Injective'])
  res = tlc.check_ok(tlc.run('Path', cfg, ctx.scratch, timeout=3000), 'Path model')
  ctx.add_tlc('Path', res)
  ctx.exhaustive = True
  if res.violated:
    raise Machinery('Path.tla violates %s: %s' % (res.violated, res.cex))
  settings = env.bootstrap(ctx.scratch)
  import carbon.database as database
  from carbon.util import TaggedSeries
  if not hasattr(database, 'WhisperDatabase') or not hasattr(database, 'CeresDatabase'):
    raise Machinery('database plugins not defined (stubs missing?)')
  root = os.path.realpath(os.path.join(ctx.scratch, 'data'))
  settings['LOCAL_DATA_DIR'] = root
  for k in ('WHISPER_AUTOFLUSH', 'WHISPER_SPARSE_CREATE', 'WHISPER_FALLOCATE_CREATE', 'WHISPER_LOCK_WRITES', 'WHISPER_FADVISE_RANDOM',
            'CERES_LOCK_WRITES'):
    settings[k] = False
  names = []
  for n in range(1, ctx.pick(4, 5) + 1):
    for tup in itertools.product(range(1, 10), repeat=n):
      names.append(''.join(CHARS[c] for c in tup))
  rng = ctx.rng
  for _ in range(ctx.pick(1500, 30000)):
    n = rng.randint(5, 60)
    if rng.random() < 0.6:
      names.append(''.join(CHARS[rng.randint(1, 9)] for _ in range(n)))
    else:
      names.append(''.join(rng.choice(['..', '/', '../', './', ';', '=', '~', 'x', 'Ω', '中', '\\', ' ', '\t', '%2e', '_DOT_', 'DOT', '.wsp', '‮',
                                       '\uff0f', '\uff0e', '\u2024', '\u2025', '\ufe52', '\u2215', '\u29f8'])      # look-alikes of / and .
                           for _ in range(rng.randint(1, 12))))
  recs = []
  for hi, hash_only in enumerate((False, True)):
    settings['TAG_HASH_FILENAMES'] = hash_only
    wdb = database.WhisperDatabase(settings)
    cdb = database.CeresDatabase(settings)
    if hash_only and hasattr(wdb, '_getFilesystemPath'):
      # history: the daemon was restarted with TAG_HASH_FILENAMES switched on; a file with the old readable name is still
      # there and moving it fails (another instance moved it first).  Whatever exists() does about that, the mapping of
      # every OTHER name stays what it is.
      old_name = 'mig.cpu;host=a;dc=b'
      try:
        oldp = wdb._getFilesystemPath(old_name, False)
        if (os.path.realpath(os.path.normpath(oldp)) + os.sep).startswith(root + os.sep):
          os.makedirs(os.path.dirname(oldp), exist_ok=True)
          open(oldp, 'w').close()
          real_rename = database.os.rename

          def failing_rename(a, b):
            raise OSError(2, 'No such file or directory')
          database.os.rename = failing_rename
          try:
            wdb.exists(old_name)
          except OSError:
            pass
          finally:
            database.os.rename = real_rename
      except (AttributeError, TypeError):
        pass
    for k, name in enumerate(names):
      if hi == 1 and ';' not in name and k % 7:
        continue          # TAG_HASH_FILENAMES only matters for tagged names: sample the others
      path = wdb.getFilesystemPath(name)
      again = wdb.getFilesystemPath(name)
      node = cdb.encode(name)
      inside = 1
      if k % ctx.pick(9, 3) == 0:
        try:
          target = os.path.realpath(os.path.normpath(path))
          if not target.startswith(root + os.sep):
            # never let a broken path function write outside the scratch directory: the verdict is
            # already decided by where the file WOULD be created
            raise EscapeAttempt()
          wdb.create(name, [(60, 10)], 0.5, 'average')
          rp = os.path.realpath(path)
          inside = 1 if (rp.startswith(root + os.sep) and os.path.exists(rp)) else 0
        except EscapeAttempt:
          inside = 0
        except (OSError, ValueError) as e:
          inside = 1            # nothing was created (name too long / embedded NUL)
      dec = TaggedSeries.decode(TaggedSeries.encode(name, os.sep, False), os.sep) if ';' not in name else name
      dec2 = TaggedSeries.decode(TaggedSeries.encode(name, '.', False), '.') if ';' not in name else name
      recs.append(dict(name=symbolise(name), hash=1 if hash_only else 0, wsp=symbolise_path(path, root, name),
                       ceres=symbolise_ceres(node, name), inside=inside, decoded=1 if (dec == name and dec2 == name) else 0,
                       deterministic=1 if again == path else 0, text=[name, path, node]))
    shutil.rmtree(root, ignore_errors=True)
    os.makedirs(root, exist_ok=True)
  ctx.evaluations = len(recs)
  cfg = tlc.cfg_text(spec='Spec', constants=dict(MaxLen=1, Mode='"trace"'), constraints=['Report'])
  CH = 4000
  verdicts = {}
  for k in range(0, len(recs), CH):
    chunk = recs[k:k + CH]
    r, done, bad = tlc.validate_batch('Path', cfg, ctx.scratch, chunk, workers=8, timeout=3000)
    tlc.check_ok(r, 'C14 cases')
    ctx.states += r.distinct
    ctx.transitions += r.generated
    got = {}
    for v in tlc.extract_prints(r.out, 'DONE'):
      got[v[1]] = set()
    for v in tlc.extract_prints(r.out, 'F'):
      got.setdefault(v[1], set()).add(v[2])
    if len(got) != len(chunk):
      raise Machinery('C14: %d of %d cases judged\n%s' % (len(got), len(chunk), r.out[-2000:]))
    for i in range(1, len(chunk) + 1):
      verdicts[k + i - 1] = got[i]
  for i, rec in enumerate(recs):
    ctx.traces += 1
    if any(c in rec['text'][0] for c in './;'):
      ctx.nontriv(i)
    for f in sorted(verdicts[i] & PROP):
      ctx.violation(WHAT[f], dict(name=rec['text'][0], whisper_path=rec['text'][1], ceres_node=rec['text'][2],
                                  tag_hash_filenames=bool(rec['hash'])), signature=f)
  concurrent_paths(ctx, database, settings, root)
  # a second database object for ANOTHER data directory (re-configuration, a second instance in one process):
  # its files belong under its own directory
  root2 = os.path.realpath(os.path.join(ctx.scratch, 'data2'))
  os.makedirs(root2, exist_ok=True)
  for hash_only in (False, True):
    settings['TAG_HASH_FILENAMES'] = hash_only
    settings['LOCAL_DATA_DIR'] = root
    first = database.WhisperDatabase(settings)
    sample = [names[i] for i in range(0, len(names), max(1, len(names) // 300))] + ['a.b.c', 'x;t=1', 'm']
    for nm in sample:
      first.getFilesystemPath(nm)
    settings['LOCAL_DATA_DIR'] = root2
    second = database.WhisperDatabase(settings)
    for nm in sample:
      ctx.evaluations += 1
      p2 = second.getFilesystemPath(nm)
      if not (os.path.realpath(os.path.normpath(p2)) + os.sep).startswith(root2 + os.sep):
        ctx.violation('a database object configured for another data directory places the file of %r outside it (under the directory of an '
                      'earlier object): %r' % (nm, p2), dict(name=nm, path=p2, data_dir=root2, earlier_data_dir=root, tag_hash_filenames=hash_only),
                      signature='file-outside-data-dir')
        break
    settings['LOCAL_DATA_DIR'] = root
  # names the pickle listener can deliver but UTF-8 cannot encode (lone surrogates): the path functions may
  # refuse them (nothing is created), but a path they do return must still lie inside the data directory
  sur = ['a;t=\udc80/../../../../../x', '\udc80/../../x', 'a.b;x=\ud800;y=/../../../etc', '../\udfff;k=v/../../..', 'x\udc80y',
         ';\udc80=../..', 'a;\udc80=1;b=/../../../../..//tmp/x']
  for _ in range(ctx.pick(100, 1000)):
    sur.append(''.join(rng.choice(['..', '/', '../', ';', '=', 'a', '\udc80', '\ud800', '.', '~']) for _ in range(rng.randint(2, 14))))
  nrefused = 0
  for hash_only in (False, True):
    settings['TAG_HASH_FILENAMES'] = hash_only
    wdb = database.WhisperDatabase(settings)
    cdb = database.CeresDatabase(settings)
    for name in sur:
      ctx.evaluations += 1
      for what, fn in (('Whisper file path', lambda: wdb.getFilesystemPath(name)),):
        try:
          path = fn()
        except (UnicodeError, ValueError):
          nrefused += 1
          continue
        try:
          target = os.path.realpath(os.path.normpath(path))
        except (UnicodeError, ValueError):
          nrefused += 1
          continue
        if not (target + os.sep).startswith(root + os.sep):
          ctx.violation('the %s of a metric name containing a lone surrogate resolves outside the data directory' % what,
                        dict(name=repr(name), path=repr(path), resolves_to=repr(target), tag_hash_filenames=hash_only), signature='escapes')
  ctx.cov['surrogate_names_refused'] = nrefused
  ctx.sample(dict(kind='path case', name=recs[100]['text'][0], whisper_path=recs[100]['text'][1], ceres=recs[100]['text'][2]))
  import copy
  bad = copy.deepcopy(recs[50])
  bad['wsp'] = [30, 2, 1, 1, 2] + bad['wsp'][2:]       # data_dir/../...
  r, done, b2 = tlc.validate_batch('Path', cfg, ctx.scratch, [bad], workers=1)
  fl = set(v[2] for v in tlc.extract_prints(r.out, 'F'))
  ctx.negative_control('a "../" injected into an observed path', 'escapes' in fl or 'path' in fl)


def replay(ctx, rp):
  raise NotImplementedError('rerun ./check C14')
