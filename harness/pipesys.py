"""The real processing pipeline as carbon.service.setupPipeline builds it (rewrite:pre, aggregate,
rewrite:post, relay / write and the pipeline for generated datapoints), judged by Pipeline.tla.

Every case: rule files are written to scratch, the real setupPipeline() installs the processors, one
datapoint is sent through events.metricReceived (optionally with one processor made to raise) or an
aggregate is emitted through events.metricGenerated; observed: what reaches the relay's client manager
/ the cache, which aggregate buffers were fed, how many errors were logged."""
import os

from twisted.internet import task

from . import env, tlc
from .core import Machinery

NAMES = ['n1', 'n2', 'n3', 'n4']
DAEMONS = {
  'aggregator': ['rewrite:pre', 'aggregate', 'rewrite:post', 'relay'],
  'aggregator-cache': ['rewrite:pre', 'aggregate', 'rewrite:post', 'write'],
  'relay': ['relay'],
  'cache': ['write'],
}
STAGE = {'rewrite:pre': 'pre', 'rewrite:post': 'post', 'aggregate': 'aggregate', 'relay': 'relay', 'write': 'write'}


class Recorder(object):
  def __init__(self):
    self.sent = []

  def sendDatapoint(self, metric, datapoint):
    self.sent.append((metric, datapoint))


class PipeEnv(object):
  def __init__(self, scratch):
    self.scratch = scratch
    self.settings = env.bootstrap(scratch)
    s = self.settings
    s['DESTINATIONS'] = []
    s['RELAY_METHOD'] = 'consistent-hashing'
    s['REPLICATION_FACTOR'] = 1
    s['DIVERSE_REPLICAS'] = False
    s['USE_FLOW_CONTROL'] = False
    s['TAG_RELAY_NORMALIZED'] = False
    s['RELAY_CACHE_METRICS'] = False
    s['CACHE_METRIC_NAMES_MAX'] = 0
    s['CACHE_METRIC_NAMES_TTL'] = 0
    s['LOG_AGGREGATOR_MISSES'] = False
    s['MAX_AGGREGATION_INTERVALS'] = 5
    s['WRITE_BACK_FREQUENCY'] = None
    s['MAX_CACHE_SIZE'] = float('inf')
    s['CACHE_SIZE_HARD_MAX'] = float('inf')
    s['CACHE_SIZE_LOW_WATERMARK'] = float('inf')
    s['CACHE_WRITE_STRATEGY'] = 'sorted'
    import carbon.events
    import carbon.state
    import carbon.instrumentation
    carbon.state.events = carbon.events
    carbon.state.instrumentation = carbon.instrumentation
    import carbon.service
    import carbon.pipeline
    import carbon.rewrite
    import carbon.cache
    import carbon.aggregator.buffers as buffers
    import carbon.aggregator.rules as rules
    self.events, self.state, self.service, self.pipeline = carbon.events, carbon.state, carbon.service, carbon.pipeline
    self.rewrite, self.cache, self.buffers, self.rules = carbon.rewrite, carbon.cache, buffers, rules
    self.base_received = list(carbon.events.metricReceived.handlers)
    self.base_generated = list(carbon.events.metricGenerated.handlers)
    self.clock = task.Clock()
    clock = self.clock

    def LC(f, *a, **k):
      lc = task.LoopingCall(f, *a, **k)
      lc.clock = clock
      return lc
    self.LC = LC

  def build(self, daemon, pre, post, agg, fwd):
    """pre / post: lists of (from, to) exact-name rewrite rules (applied in order); agg: list of (aggregate, input)"""
    s = self.settings
    rw = os.path.join(self.scratch, 'rewrite-rules.conf')
    with open(rw, 'w') as fh:
      fh.write('[pre]\n')
      for a, b in pre:
        fh.write('^%s$ = %s\n' % (a, b))
      fh.write('[post]\n')
      for a, b in post:
        fh.write('^%s$ = %s\n' % (a, b))
    ag = os.path.join(self.scratch, 'aggregation-rules.conf')
    with open(ag, 'w') as fh:
      for a, b in agg:
        fh.write('%s (10) = sum %s\n' % (a, b))
    s['rewrite-rules'] = rw
    s['aggregation-rules'] = ag
    s['FORWARD_ALL'] = fwd
    self.events.metricReceived.handlers[:] = list(self.base_received)
    self.events.metricGenerated.handlers[:] = list(self.base_generated)
    self.state.pipeline_processors = []
    self.state.pipeline_processors_generated = []
    self.buffers.LoopingCall = self.LC
    self.buffers.BufferManager.clear()
    for mgr in (self.rewrite.RewriteRuleManager, self.rules.RuleManager):
      if mgr.read_task.running:
        mgr.read_task.stop()
      mgr.read_task.clock = self.clock
      mgr.rules_last_read = 0.0
    self.rewrite.RewriteRuleManager.clear()
    self.cache._Cache = None
    root = self.service.CarbonRootService()
    self.service.setupPipeline(list(DAEMONS[daemon]), root, s)
    self.rec = Recorder()
    self.state.client_manager = self.rec
    self.stored = []
    mc = self.cache.MetricCache()
    for p in self.state.pipeline_processors + self.state.pipeline_processors_generated:
      if hasattr(p, 'cache'):
        p.cache = mc
    orig_store = mc.store
    stored = self.stored

    def store(metric, datapoint):
      stored.append((metric, datapoint))
      return orig_store(metric, datapoint)
    mc.store = store

  def teardown(self):
    self.events.metricReceived.handlers[:] = list(self.base_received)
    self.events.metricGenerated.handlers[:] = list(self.base_generated)
    self.buffers.BufferManager.clear()
    self.buffers.LoopingCall = task.LoopingCall
    for mgr in (self.rewrite.RewriteRuleManager, self.rules.RuleManager):
      if mgr.read_task.running:
        mgr.read_task.stop()
    self.state.client_manager = None
    self.cache._Cache = None

  def delivered(self):
    return [m for m, dp in self.rec.sent] + [m for m, dp in self.stored]

  def fed(self, value):
    out = []
    for name, mb in self.buffers.BufferManager.buffers.items():
      if any(v == value for ib in mb.interval_buffers.values() for v in ib.values):
        out.append(name)
    return sorted(out)


def apply_rules(rules, name):
  for a, b in rules:
    if name == a:
      name = b
  return name


def gen_cases(ctx, pe, rng, n):
  recs = []
  idx = {nm: i + 1 for i, nm in enumerate(NAMES)}
  for k in range(n):
    daemon = ['aggregator', 'aggregator-cache', 'relay', 'cache', 'aggregator'][k % 5]
    pre = [(rng.choice(NAMES), rng.choice(NAMES)) for _ in range(rng.randint(0, 3))]
    post = [(rng.choice(NAMES), rng.choice(NAMES)) for _ in range(rng.randint(0, 3))]
    agg = [(rng.choice(NAMES), rng.choice(NAMES)) for _ in range(rng.randint(0, 3))]
    fwd = rng.random() < 0.6
    stages = [STAGE[x] for x in DAEMONS[daemon]]
    pe.build(daemon, pre, post, agg, fwd)
    errlog = env.ErrorLog().install()
    try:
      base = dict(stages=stages, pre=[idx[apply_rules(pre, nm)] for nm in NAMES], post=[idx[apply_rules(post, nm)] for nm in NAMES],
                  agg=[sorted(set(idx[a] for a, b in agg if b == nm)) for nm in NAMES], fwd=1 if fwd else 0,
                  text=dict(daemon=daemon, pre=pre, post=post, aggregation=agg, forward_all=fwd))
      procs = pe.state.pipeline_processors
      if len(procs) != len(stages):
        ctx.violation('setupPipeline() installed %d processors for carbon-%s (%s), the daemon\'s pipeline has %d stages (%s)' % (
                        len(procs), daemon, [getattr(type(x), 'plugin_name', type(x).__name__) for x in procs], len(stages), DAEMONS[daemon]),
                      dict(daemon=daemon), signature='pipeline-wiring')
        continue
      for q in range(5):
        name = rng.choice(NAMES)
        fail_at = rng.randint(1, len(stages)) if rng.random() < 0.3 else 0
        value = float(1000 * k + q + 1)
        procs = pe.state.pipeline_processors
        saved = None
        if fail_at:
          target = procs[fail_at - 1]
          saved = target.__dict__.get('process')

          def raising(metric, datapoint):
            raise RuntimeError('injected processor failure')
          target.process = raising
        n0, s0, e0 = len(pe.rec.sent), len(pe.stored), len(errlog.errors)
        dup = (not fail_at) and rng.random() < 0.3
        if dup:
          # the daemon's pickle listener receives a frame that carries this datapoint twice (two equal samples of one
          # second): both go through the pipeline
          import pickle as _pickle
          import struct as _struct
          from twisted.internet.testing import StringTransport as _ST
          import carbon.protocols as _protocols
          payload = _pickle.dumps([(name, (float(100 + q), value)), (name, (float(100 + q), value))], protocol=2)
          r = _protocols.MetricPickleReceiver()
          r.makeConnection(_ST())
          r.dataReceived(_struct.pack('!L', len(payload)) + payload)
          pe.state.connectedMetricReceiverProtocols.discard(r)
        else:
          pe.events.metricReceived(name, (float(100 + q), value))
        if fail_at:
          if saved is None:
            del target.process
          else:
            target.process = saved
        sink = [m for m, dp in pe.rec.sent[n0:]] + [m for m, dp in pe.stored[s0:]]
        altered = [1 for m, dp in pe.rec.sent[n0:] + pe.stored[s0:] if dp != (float(100 + q), value)]
        dup_bad = 0
        if dup:
          h = len(sink) // 2
          nfed = sum(1 for nm2, mb in pe.buffers.BufferManager.buffers.items() for ib in mb.interval_buffers.values() for v in ib.values if v == value)
          if len(sink) % 2 or sink[:h] != sink[h:] or nfed != 2 * len(pe.fed(value)):
            dup_bad = 1
          sink = sink[:h]
        rec = dict(base)
        rec.update(name=idx[name], failAt=fail_at, gen=0, sink=[idx.get(m, 0) for m in sink], buf=[idx.get(a, 0) for a in pe.fed(value)],
                   errs=len(errlog.errors) - e0, altered=len(altered), dup_bad=dup_bad)
        rec['text'] = dict(base['text'], name=name, failing_processor=fail_at, delivered=sink)
        recs.append(rec)
        ctx.evaluations += 1
      # an aggregate is emitted: events.metricGenerated -> the relay / cache only
      gname = rng.choice(NAMES)
      n0, s0 = len(pe.rec.sent), len(pe.stored)
      pe.events.metricGenerated(gname, (100.0, 7.0))
      sink = [m for m, dp in pe.rec.sent[n0:]] + [m for m, dp in pe.stored[s0:]]
      rec = dict(base)
      rec.update(name=idx[gname], failAt=0, gen=idx[gname], sink=[idx.get(m, 0) for m in sink], buf=[], errs=0, altered=0, dup_bad=0)
      rec['text'] = dict(base['text'], generated=gname, delivered=sink)
      recs.append(rec)
      ctx.evaluations += 1
    finally:
      errlog.remove()
      pe.teardown()
  return recs


def model(ctx):
  consts = dict(Mode='"model"', Names='{1,2,3}', ForwardAll='TRUE', MaxIn=3, MaxFail=1)
  for i, (stages, fwd) in enumerate(((['pre', 'aggregate', 'post', 'relay'], 'TRUE'), (['pre', 'aggregate', 'post', 'write'], 'FALSE'), (['relay'], 'TRUE'))):
    mc, files, sub = tlc.mc_wrap('Pipeline', dict(Stages='<<%s>>' % ','.join('"%s"' % x for x in stages), Pre='<<2,2,3>>', Post='<<1,3,3>>',
                                                   Agg='<<{},{3},{3}>>'))
    c = dict(consts, ForwardAll=fwd)
    c.update(sub)
    cfg = tlc.cfg_text(spec='Spec', constants=c, invariants=['TypeOK', 'ExactlyOnce', 'NameRule', 'Buffered', 'GeneratedUntouched', 'ErrorsCounted'])
    res = tlc.check_ok(tlc.run(mc, cfg, ctx.scratch, files=files, coverage=True), 'Pipeline model')
    ctx.add_tlc('Pipeline[%s]' % '+'.join(stages), res, must_cover=None if res.violated else ['Receive'])
    if res.violated:
      raise Machinery('Pipeline.tla violates %s' % res.violated)


def judge(ctx, recs):
  consts = dict(Mode='"trace"', Names='{}', ForwardAll='TRUE', MaxIn=0, MaxFail=0)
  mc, files, sub = tlc.mc_wrap('Pipeline', dict(Stages='<<>>', Pre='<<>>', Post='<<>>', Agg='<<>>'))
  consts.update(sub)
  cfg = tlc.cfg_text(spec='Spec', constants=consts, constraints=['Report'])
  slim = [{k: v for k, v in r.items() if k != 'text'} for r in recs]
  res, done, bad = tlc.validate_batch(mc, cfg, ctx.scratch, slim, workers=4, files=files)
  tlc.check_ok(res, 'pipeline cases')
  ctx.states += res.distinct
  ctx.transitions += res.generated
  got = {}
  for v in tlc.extract_prints(res.out, 'DONE'):
    got[v[1]] = set()
  for v in tlc.extract_prints(res.out, 'F'):
    got.setdefault(v[1], set()).add(v[2])
  if len(got) != len(recs):
    raise Machinery('pipeline: %d of %d cases judged\n%s' % (len(got), len(recs), res.out[-2000:]))
  return [got[i + 1] for i in range(len(recs))]
