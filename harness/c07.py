"""C07 - relay send queues deliver in order, exactly once, within their bounds.

A. TLC: Relay.tla (one action per reactor callback of carbon.client, with the synchronous
   chains inside a callback) - FifoOnce, NormalOrder, DropsCounted, Bounded, BatchSize,
   StopAfterFlush, NoLoss for 1-2 destinations, flow control on/off, dynamic router on/off.
B. spec->code: TLC -simulate event sequences are executed on the real CarbonClientManager /
   factories / protocols (fake connector, per-factory clocks, StringTransports, real router,
   real pipeline wiring, real receivers).
C. code->spec: seeded random event histories (plain, queue-filling, flapping) on the same
   objects, pickle and line client protocols.  Every event logs the full projection incl.
   the independently decoded bytes of every connection; Relay_Trace.tla applies the callback
   to the previously observed state and names what differs.
"""
from . import relaysys, relaycheck, tlc
from .core import Machinery


def run(ctx):
  ctx.rule = ('event sequences over {arrive, self-metric, connection made/lost/failed, transport paused/resumed, send '
              'timer, retry timer, stop, receiver connect/disconnect}: TLC-simulated ones replayed on the code and seeded '
              'random histories of 40-200 events; non-trivial = a reconnect happened with data on the wire, or a queue '
              'reported itself full')
  ctx.assumptions += ['bytes handed to transport.write() are the observation (Twisted TCP itself is out of scope)',
                      'no datapoints are injected after the orderly stop began (carbon stops its listeners first)']
  rm = relaysys.RelayModules(ctx.scratch)
  # A
  mcs = [dict(nd=2, maxq=2, mpm=2, flow=True, dynamic=False), dict(nd=2, maxq=2, mpm=1, flow=True, dynamic=True),
         dict(nd=1, maxq=2, mpm=5, flow=False, dynamic=False), dict(nd=1, maxq=2, mpm=1, flow=True, dynamic=False, ratio=True)]
  if not ctx.quick:
    mcs += [dict(nd=2, maxq=2, mpm=5, flow=True, dynamic=True, rf=2), dict(nd=2, maxq=3, mpm=2, flow=False, dynamic=True)]
  for i, c in enumerate(mcs):
    rm.configure(dict(c, nr=1))
    # (replication with the dynamic router: 66 M states at 4 items / 4 connection events - explored at 4 / 3)
    consts = relaycheck.consts_for(rm, ctx.pick(3, 4), 3 if (c.get('rf', 1) > 1 and c.get('dynamic')) else ctx.pick(3, 4))
    res = relaycheck.model_check(ctx, 'Relay#%d' % i, consts, relaycheck.INV_C07)
    if res.violated:
      raise Machinery('Relay.tla violates %s: %s' % (res.violated, [a for a, _ in res.cex]))
  # B + C
  # the counters themselves: what was counted is published by the self-metrics report or still in the current interval
  from . import instrsys
  instrsys.section(ctx, 'C07', 'carbon-relay')
  cfgs = relaycheck.CONFIGS_QUICK + ([] if ctx.quick else relaycheck.CONFIGS_MORE)
  first = True
  for ci, cfg in enumerate(cfgs):
    consts, traces, origins = relaycheck.run_traces(ctx, rm, cfg, nsim=ctx.pick(40, 250), nrandom=ctx.pick(60, 600),
                                                    nevents=ctx.pick(40, 120), seed_base=ctx.seed + 10 + ci)
    verdicts = relaycheck.judge(ctx, consts, traces, 'C07 traces cfg %d' % ci)
    relaycheck.report(ctx, traces, origins, verdicts, relaycheck.C07_FLAGS)
    if first:
      relaycheck.negative_controls(ctx, consts, traces, verdicts)
      ctx.sample(dict(kind='random event history on the real relay objects', cfg=cfg,
                      events=[[e['e'], e['arg']] for e in traces[-1]['ev'][:25]],
                      final=traces[-1]['ev'][-1]['p']))
      ctx.sample(dict(kind='replayed TLC behaviour', script=origins[0]['script'][:20]))
      first = False

  # scale: a backlog of several hundred one-datapoint batches behind a destination that comes up, with
  # TIME_TO_DEFER_SENDING = 0 (every batch is its own reactor callback, however long the backlog)
  big = dict(nd=1, maxq=600, mpm=1, flow=False, dynamic=False, nr=1, defer=0)
  rm.configure(big)
  consts = relaycheck.consts_for(rm, 0, 0)
  n = ctx.pick(420, 560)
  sc = [('Arrive', 0)] * n + [('ConnMade', 1)]
  tr, skipped = relaysys.scripted_run(rm, big, sc, settle=True, max_settle=2 * n)
  org = dict(kind='replayed TLC behaviour', cfg=big, script=[list(x) for x in sc], skipped=skipped, directed='long backlog')
  ctx.evaluations += 1
  verdicts = relaycheck.judge(ctx, consts, [tr], 'C07 long backlog')
  relaycheck.report(ctx, [tr], [org], verdicts, relaycheck.C07_FLAGS)
  ctx.cov['long_backlog_events'] = len(tr['ev'])


def replay(ctx, rp):
  rm = relaysys.RelayModules(ctx.scratch)
  org = rp['replay']['origin']
  tr = relaycheck.rerun(rm, org)
  consts = relaycheck.consts_for(rm, 0, 0)
  ctx.evaluations = 1
  v = relaycheck.judge(ctx, consts, [tr], 'replay')
  relaycheck.report(ctx, [tr], [org], v, relaycheck.C07_FLAGS)
