"""Shared driver of the cache-cluster checks (C02, C10, C17)."""
import copy

from . import cachesys, tlc
from .core import Machinery

INV_C02 = ['TypeOK', 'Conservation', 'LastWriteWins', 'BatchNoDupTs', 'SizeExact']
INV_C10 = ['TypeOK', 'SizeExact', 'Bound', 'RefusalSignalled', 'Conservation']
INV_C17 = ['TypeOK', 'NeverFailsModuloF9', 'NoEmptyBatch', 'FairPass', 'MaxFirst', 'LagRespected', 'Conservation']

# flags of CacheLin that are property failures, per property
FLAGS = {
  'C02': {'sizeexact', 'unsorted', 'notdrained', 'drainraised'},      # a drain that raises after popping loses its batch
  'C10': {'bound', 'sizeexact', 'f1', 'notdrained'},
  'C17': {'storeraised', 'drainraised', 'f9', 'emptybatch', 'maxfirst', 'fairpass', 'lag', 'lagstarved', 'chosestale', 'notdrained', 'f1'},
}
WHAT = {
  'f1': 'a refused store of a not-yet-cached metric leaves an empty per-metric entry: the metric count changes',
  'bound': 'the cache holds more datapoints than the hard limit (MAX_CACHE_SIZE, or 105% of it under flow control)',
  'f9': 'bucketmax: store() of the metric the writer has just chosen (between choose_item and pop) raises ValueError from list.remove',
  'sizeexact': 'the reported cache size differs from the number of datapoints held',
  'unsorted': 'a drained batch is not strictly increasing in timestamp',
  'notdrained': 'repeated draining with no new input left datapoints in the cache',
  'emptybatch': 'a drain returned a metric without datapoints while other metrics hold some',
  'maxfirst': 'max/bucketmax chose a metric that does not hold the maximum number of datapoints',
  'fairpass': 'a metric was drained a second time before every metric present at the start of the pass was drained',
  'lag': 'timesorted chose a metric whose oldest datapoint is not older than MIN_TIMESTAMP_LAG',
  'lagstarved': 'timesorted chose nothing although a metric holds a datapoint older than MIN_TIMESTAMP_LAG: due metrics are not drained',
  'chosestale': 'the strategy chose a metric that is not in the cache',
  'storeraised': 'store() raised an exception',
  'drainraised': 'drain_metric() raised an exception',
}


def report(ctx, col, verdicts, pid):
  vflags = FLAGS[pid]
  for i, tr in enumerate(col.traces):
    ctx.traces += 1
    org = col.origins[i]
    if cachesys.nontrivial_key(tr):
      key = 'window' if cachesys.window_store(tr) else 'overlap'
      ctx.nontriv((key, i))
      if key == 'window':
        ctx.cov['store_in_choose_pop_window'] = ctx.cov.get('store_in_choose_pop_window', 0) + 1
    kind, info = verdicts[i]
    if kind == 'rejected':
      ctx.violation('no linearization of the recorded cache operations explains the observations (stuck at event %s: %s)'
                    % (info.get('stuck_at'), info.get('event')),
                    dict(origin=org, trace=tr, info=info), signature='rejected')
    else:
      for f in sorted(info & vflags):
        ctx.violation(WHAT.get(f, f), dict(origin=org, trace=tr, flags=sorted(info)), signature=f)


def negative_controls(ctx, col, verdicts):
  """Corrupt accepted traces in one field; the judge must notice."""
  pick = None
  for i, tr in enumerate(col.traces):
    if verdicts[i][0] == 'ok' and not verdicts[i][1]:
      for j, e in enumerate(tr['ev']):
        if e['k'] == 'ret' and e['op'] == 'drain' and len(e['batch']) >= 1:
          pick = (i, j)
          break
    if pick:
      break
  if not pick:
    if ctx.violations:
      ctx.neg_controls.append(dict(name='skipped: every recorded trace is flagged', rejected=True))
      return
    raise Machinery('no accepted trace with a non-empty drain to build a negative control from')
  i, j = pick
  a = copy.deepcopy(col.traces[i])
  a['ev'][j]['batch'] = a['ev'][j]['batch'][1:]            # a drained datapoint vanishes
  b = copy.deepcopy(col.traces[i])
  b['ev'][j]['batch'][0][1] += 1000                        # a value that was never stored
  c = copy.deepcopy(col.traces[i])
  for e in c['ev']:
    if e['k'] == 'obs' and e['held'] > 0:
      e['size'] += 1                                       # size counter off by one
      break
  v = cachesys.judge(ctx, [a, b, c], 'negative controls', progress=False)
  ctx.negative_control('drained datapoint removed from a recorded batch', v[0][0] == 'rejected')
  ctx.negative_control('foreign value in a recorded batch', v[1][0] == 'rejected')
  ctx.negative_control('size observation off by one', v[2][0] == 'rejected' or 'sizeexact' in v[2][1])


def run_plan(ctx, pid, model_runs, sim_runs, explore_runs):
  """model_runs: [(name, consts, invariants, properties, spec)]
     sim_runs:   [(strategy, hard, lag, num, depth)]
     explore_runs: [(cfg, r_ops, w_ops, bound, nrandom, limit)]"""
  mods = cachesys.Modules(ctx.scratch)
  for name, consts, invs, props, spec in model_runs:
    res = cachesys.model_check(ctx, name, consts, invs, props, spec=spec,
                               must_cover=('Store', 'W_Empty', 'W_Choose', 'W_Pop'))
    if res.violated:
      raise Machinery('%s: Cache.tla violates %s - model and design disagree; counter-example:\n%s'
                      % (name, res.violated, '\n'.join('%s %s' % (a, {k: v for k, v in s.items() if k in ("keyseq", "pts", "size", "pcW", "chosenM", "failures", "buckets", "queue")}) for a, s in res.cex)))
  col = cachesys.Collector()
  for strategy, hard, lag, num, depth in sim_runs:
    for tr, org in cachesys.simulate_and_replay(ctx, mods, strategy, hard, lag, num, depth):
      col(tr, org)
  nreplay = len(col.traces)
  for cfg, r_ops, w_ops, bound, nrandom, limit in explore_runs:
    n, ex = cachesys.explore(ctx, mods, cfg, r_ops, w_ops, bound=bound, nrandom=nrandom, limit=limit, sink=col)
    ctx.evaluations += n
  verdicts = cachesys.judge(ctx, col.traces, '%s traces' % pid)
  report(ctx, col, verdicts, pid)
  negative_controls(ctx, col, verdicts)
  ctx.cov['replayed_model_behaviours'] = nreplay
  ctx.cov['distinct_recorded_traces'] = len(col.traces)
  if col.traces:
    k = min(len(col.traces) - 1, nreplay)
    ctx.sample(dict(kind='recorded line-level execution', meta={x: y for x, y in col.traces[k].items() if x != 'ev'},
                    workload=col.origins[k].get('r_ops'), schedule=col.origins[k].get('forced'),
                    events=col.traces[k]['ev'][:16]))
    ctx.sample(dict(kind='replayed Cache.tla behaviour', actions=col.origins[0].get('actions'),
                    events=col.traces[0]['ev'][:10]))
  return mods, col, verdicts


def replay(ctx, rp, pid):
  mods = cachesys.Modules(ctx.scratch)
  org = rp['replay']['origin']
  if org.get('kind') == 'replay':
    raise Machinery('replays of model behaviours are re-run by the check itself (deterministic per seed)')
  tr = cachesys.rerun(mods, org)
  col = cachesys.Collector()
  col(tr, org)
  ctx.evaluations = 1
  verdicts = cachesys.judge(ctx, col.traces, 'replay')
  report(ctx, col, verdicts, pid)
