"""C13 - the default unpickler cannot be made to load or call arbitrary globals.

A. TLC: Unpickle.tla - the pickle machine restricted to global references with
   SafeUnpickler.find_class as the only gate: Safe, NothingOnPy3, PlainResult over every opcode
   program up to MaxOps (Python 3 semantics and the Python 2 allow-list semantics).
B. spec->code: TLC-simulated abstract programs are assembled into bytes for pickle protocols 0-5
   and every concrete encoding of the abstract opcode (GLOBAL text vs STACK_GLOBAL, INST vs OBJ,
   EXT1/2/4 with a registered extension code), nested at depth 0-3 inside a well-formed datapoint
   list, and delivered through the real MetricPickleReceiver.dataReceived and
   CacheManagementHandler.dataReceived.  Callable references are canaries in a harness module.
C. code->spec: lookup-only routes (GLOBAL / STACK_GLOBAL / INST / EXT) swept over every
   (module, attribute) pair of every module loaded in the process (stride in quick).
Observations: a spy around the unpickler chosen in connectionMade (its return value), the canary
call log, sys.addaudithook import events; Unpickle.tla judges every record.
"""
import copyreg
import io
import pickle
import pickletools
import random
import struct
import sys

from twisted.internet.testing import StringTransport

from . import env, tlc, wiresys
from .core import Machinery

PROP = {'global-loaded', 'global-called', 'module-imported', 'nonplain-result'}
WHAT = {
  'global-loaded': 'a global outside the allow-list was looked up and returned by the unpickler',
  'global-called': 'a global outside the allow-list was called while unpickling',
  'module-imported': 'a module outside the allow-list was imported while unpickling',
  'nonplain-result': 'unpickling produced something other than plain built-in data',
}
PLAIN = (type(None), bool, int, float, str, bytes)

REFS = {
  'listed': [('copy_reg', '_reconstructor'), ('__builtin__', 'object')],
  'othername': [('copy_reg', 'dispatch_table'), ('__builtin__', 'eval')],
  'othermod': [('verif_canary', 'fire'), ('verif_canary', 'Boom'), ('verif_cold', 'fire'), ('builtins', 'len'), ('os', 'getpid'), ('copyreg', '_reconstructor')],
}
EXT_CODES = {}


def is_plain(o, depth=0):
  if isinstance(o, PLAIN):
    return True
  if depth > 20:
    return False
  if isinstance(o, (tuple, list, set, frozenset)):
    return all(is_plain(x, depth + 1) for x in o)
  if isinstance(o, dict):
    return all(is_plain(k, depth + 1) and is_plain(v, depth + 1) for k, v in o.items())
  return False


def contains_global(o, depth=0):
  """names of non-plain leaves"""
  if isinstance(o, PLAIN):
    return []
  if depth > 20:
    return ['<deep>']
  if isinstance(o, (tuple, list, set, frozenset)):
    return [n for x in o for n in contains_global(x, depth + 1)]
  if isinstance(o, dict):
    return [n for k, v in o.items() for n in contains_global(k, depth + 1) + contains_global(v, depth + 1)]
  return [getattr(o, '__qualname__', type(o).__name__)]


def op_global(mod, name, proto, rng):
  if proto >= 4 and rng.random() < 0.6:
    enc = rng.choice(['short', 'bin', 'text'])
    def s(x):
      b = x.encode('utf-8')
      if enc == 'short':
        return b'\x8c' + bytes([len(b)]) + b
      if enc == 'bin':
        return b'X' + struct.pack('<I', len(b)) + b
      return b'V' + b + b'\n'
    return s(mod) + s(name) + b'\x93'
  return b'c' + mod.encode() + b'\n' + name.encode() + b'\n'


def assemble(ops, proto, rng):
  """abstract program -> pickle bytes (one concrete encoding per abstract opcode, chosen at random)"""
  out = b''
  if proto >= 2:
    out += b'\x80' + bytes([proto])
  used = []
  for op, ref in ops:
    if ref != 'none':
      mod, name = rng.choice(REFS[ref])
      used.append((ref, mod, name))
    if op == 'data':
      out += rng.choice([b'K\x05', b'N', b'\x88', b'X\x01\x00\x00\x00a', b'G?\xf0\x00\x00\x00\x00\x00\x00', b')', b']', b'}'])
    elif op == 'mark':
      out += b'('
    elif op == 'tuple':
      out += rng.choice([b't', b'l', b'd']) if True else b't'
    elif op == 'global':
      out += b'c' + mod.encode() + b'\n' + name.encode() + b'\n'
    elif op == 'sglobal':
      out = out  # the two strings were pushed by preceding 'data' ops in the abstract program: replace by real names
      out += b'0' * 0
      out += b'\x8c' + bytes([len(mod)]) + mod.encode() + b'\x8c' + bytes([len(name)]) + name.encode() + b'\x93'
    elif op == 'inst':
      out += b'i' + mod.encode() + b'\n' + name.encode() + b'\n'
    elif op == 'obj':
      out += b'o'
    elif op == 'reduce':
      out += b'R'
    elif op == 'newobj':
      out += b'\x81'
    elif op == 'newobjex':
      out += b'\x92'
    elif op == 'build':
      out += b'b'
    elif op == 'ext':
      code = EXT_CODES[(mod, name)]
      out += (b'\x82' + bytes([code])) if code < 256 and rng.random() < 0.5 else (b'\x83' + struct.pack('<H', code)) if rng.random() < 0.5 else (b'\x84' + struct.pack('<i', code))
    elif op == 'persid':
      out += rng.choice([b'Pid\n', b'K\x01Q'])
    elif op == 'put':
      out += b'q\x00'
    elif op == 'get':
      out += b'h\x00'
    elif op == 'stop':
      out += b'.'
  if not ops or ops[-1][0] != 'stop':
    out += b'.'
  return out, used


def template(route, mod, name, proto, rng):
  """well-formed programs for one route with a concrete reference; returns bytes of the VALUE (no STOP)"""
  g = op_global(mod, name, proto, rng)
  if route == 'lookup':
    return g
  if route == 'reduce':
    return g + b')R'
  if route == 'inst':
    return b'(K\x01i' + mod.encode() + b'\n' + name.encode() + b'\n'
  if route == 'obj':
    return b'(' + g + b'K\x01o'
  if route == 'newobj':
    return g + b')\x81'
  if route == 'newobjex':
    return g + b')}\x92'
  if route == 'build':
    return g + b')R}b'
  if route == 'ext':
    code = EXT_CODES[(mod, name)]
    if code < 256:
      return b'\x82' + bytes([code])
    return b'\x83' + struct.pack('<H', code)
  raise KeyError(route)


PRELUDES = [b'', b'U\x01\xff0', b'T\x02\x00\x00\x00\xff\xfe0', b"S'\\xff\\xfe'\n0", b'U\x02\xc3(0']


def nest(value_bytes, depth, proto):
  """[( 'a.b', (1.0, <value>) )] nested `depth` lists deep"""
  body = b'(' + b'X\x03\x00\x00\x00a.b' + b'(G?\xf0\x00\x00\x00\x00\x00\x00' + value_bytes + b'tt'
  for _ in range(depth):
    body = b'(' + body + b'l'
  body = b'(' + body + b'l'
  head = (b'\x80' + bytes([proto])) if proto >= 2 else b''
  return head + body + b'.'


class Spy(object):
  def __init__(self, inner, log):
    self.inner, self.log = inner, log

  def loads(self, data):
    try:
      r = self.inner.loads(data)
    except BaseException as e:
      self.log.append(('exc', type(e).__name__))
      raise
    self.log.append(('value', r))
    return r


class Env13(object):
  def __init__(self, ctx):
    self.wm = wiresys.WireModules(ctx.scratch)
    self.wm.settings['PICKLE_RECEIVER_MAX_LENGTH'] = 2 ** 20
    import verif_canary
    self.canary = verif_canary
    k = 0
    for ref, lst in REFS.items():
      for mod, name in lst:
        k += 1
        code = 200 + k if k % 2 else 60000 + k
        try:
          copyreg.add_extension(mod, name, code)
        except ValueError:
          pass
        EXT_CODES[(mod, name)] = code
    self.imports = []
    sys.addaudithook(self.audit)
    self.active = False

  def audit(self, event, args):
    if self.active and event == 'import':
      self.imports.append(args[0])

  def deliver(self, payload, target):
    """payload through the real receiver; returns (outcome, result, called, imported)"""
    wm = self.wm
    log = []
    del self.canary.CALLS[:]
    self.imports = []
    sys.modules.pop('verif_cold', None)      # importable, not loaded: an import during unpickling becomes visible
    frame = struct.pack('!L', len(payload)) + payload
    if target == 'receiver':
      run = wiresys.Run(wm, 'pickle')
      run.r.unpickler = Spy(run.r.unpickler, log)
      self.active = True
      try:
        run.feed(frame)
      finally:
        self.active = False
        run.close()
    else:
      h = wm.protocols.CacheManagementHandler()
      tr = StringTransport()
      h.makeConnection(tr)
      h.unpickler = Spy(h.unpickler, log)
      self.active = True
      try:
        try:
          h.dataReceived(frame)
        except Exception:
          pass
      finally:
        self.active = False
    outcome, result = ('none', None)
    if log:
      outcome, result = log[-1]
    called = [c[0] for c in self.canary.CALLS]
    allowed_modules = {'copy_reg', '__builtin__'}
    imported = sorted(set(m for m in self.imports if m.split('.')[0] not in allowed_modules and m not in sys.modules or m == 'verif_canary'))
    imported = sorted(set(m for m in self.imports if m.split('.')[0] not in allowed_modules))
    if 'verif_cold' in sys.modules and 'verif_cold' not in imported:
      imported.append('verif_cold')
    called = [c for c in called if c != 'import:verif_cold']
    return outcome, result, called, imported


def record(e13, ops, payload, target, what):
  outcome, result, called, imported = e13.deliver(payload, target)
  looked = contains_global(result) if outcome == 'value' else []
  return dict(ops=[list(o) for o in ops], outcome=outcome if outcome in ('value', 'exc') else 'exc', plain=1 if (outcome == 'value' and is_plain(result)) else 0,
              looked=looked, called=called, imported=imported, target=target, what=what, hex=payload.hex()[:400])


def run(ctx):
  ctx.rule = ('abstract opcode programs of up to 7 opcodes from TLC x protocols 0-5 x concrete encodings, templates of the nine routes '
              'x references {allow-listed, listed module / other name, other module (canaries)} x nesting depth 0-3, and the lookup '
              'routes over the (module, attribute) pairs of all loaded modules; both the metric pickle listener and the cache query '
              'port; non-trivial = program containing an opcode that resolves or calls a global')
  ctx.assumptions += ['references that are CALLED are only ever canaries of a harness module; real modules are only looked up',
                      'on Python 3 the allow-listed modules (copy_reg, __builtin__) do not exist']
  for py3 in ('TRUE', 'FALSE'):
    cfg = tlc.cfg_text(spec='Spec', constants=dict(Mode='"model"', MaxOps=ctx.pick(6, 7), Py3=py3), invariants=['Safe', 'NothingOnPy3', 'PlainResult'])
    res = tlc.check_ok(tlc.run('Unpickle', cfg, ctx.scratch, timeout=3000), 'Unpickle model')
    ctx.add_tlc('Unpickle[py3=%s]' % py3, res)
    if res.violated:
      raise Machinery('Unpickle.tla violates %s: %s' % (res.violated, res.cex[-1:]))
  e13 = Env13(ctx)
  rng = ctx.rng
  recs = []
  # B. TLC-generated abstract programs
  cfg = tlc.cfg_text(spec='Spec', constants=dict(Mode='"model"', MaxOps=8, Py3='TRUE'))
  res, behs = tlc.simulate_behaviours('Unpickle', cfg, ctx.scratch, num=ctx.pick(300, 3000), depth=9, seed=ctx.seed + 3)
  tlc.check_ok(res, 'Unpickle simulate')
  for beh in behs:
    ops = [tuple(x) for x in beh[-1][1]['prog']]
    if not ops:
      continue
    proto = rng.randint(0, 5)
    payload, used = assemble(ops, proto, rng)
    for target in ('receiver', 'query'):
      recs.append(record(e13, ops, payload, target, 'tlc program proto %d' % proto))
  # templates: every route x reference x depth x protocol
  routes = ['lookup', 'reduce', 'inst', 'obj', 'newobj', 'newobjex', 'build', 'ext']
  for route in routes:
    for ref, lst in REFS.items():
      for mod, name in lst:
        if route != 'lookup' and mod in ('os',):
          continue           # real functions are never on a calling route
        for depth in range(0, ctx.pick(2, 4)):
          for proto in ctx.pick([0, 2, 4], [0, 1, 2, 3, 4, 5]):
            val = template(route, mod, name, proto, rng)
            # a Python-2 8-bit string with bytes that are not UTF-8, pushed and popped before the reference
            val = rng.choice(PRELUDES) + val
            ops = [('global' if route != 'inst' else 'inst', ref)]
            for payload, what in ((nest(val, depth, proto), 'nested %s depth %d' % (route, depth)),
                                  (((b'\x80' + bytes([proto])) if proto >= 2 else b'') + val + b'.', 'bare %s' % route)):
              for target in ('receiver', 'query'):
                recs.append(record(e13, ops, payload, target, '%s %s.%s proto %d' % (what, mod, name, proto)))
  # a module that is importable but not loaded: naming it in a frame must not get it imported
  for payload, what in ((b'cverif_cold\nfire\n)R.', 'GLOBAL+REDUCE'), (b'cverif_cold\nnothing\n.', 'GLOBAL of a missing attribute'),
                        (b'\x80\x04\x8c\nverif_cold\x8c\x04fire\x93.', 'STACK_GLOBAL'), (b'(iverif_cold\nfire\n.', 'INST')):
    for target in ('receiver', 'query'):
      recs.append(record(e13, [('global' if what != 'INST' else 'inst', 'othermod')], payload, target, 'not-yet-imported module, ' + what))
  # INST is the one opcode that names a global in-line without GLOBAL / STACK_GLOBAL / EXT: frames whose bytes contain
  # none of those opcode values anywhere (no 'c', 0x93, 0x82-0x84)
  for payload, what in ((b'(ivkanary\nfire\n.', 'bare INST'), (b'(I1\nivkanary\nfire\n.', 'INST with an argument'),
                        (b'(lp0\n(ivkanary\nBoom\nap1\n.', 'INST inside a list'), (b'(S\'a\'\n(F1.0\nF2.0\ntt(ivkanary\nfire\nl.', 'INST after a datapoint')):
    assert not (set(payload) & {0x63, 0x93, 0x82, 0x83, 0x84})
    for target in ('receiver', 'query'):
      recs.append(record(e13, [('inst', 'othermod')], payload, target, 'INST-only frame, ' + what))
  # configuration: every spelling of "off" that carbon.conf accepts must select the safe unpickler
  import os
  from carbon.conf import Settings
  for spelling in ['False', 'false', 'no', 'off', '0', 'FALSE', 'False ; not needed', 'no (legacy)', 'off # default', 'False  ', 'nope']:
    cpath = os.path.join(ctx.scratch, 'carbon-unpickler.conf')
    with open(cpath, 'w') as fh:
      fh.write('[cache]\nUSE_INSECURE_UNPICKLER = %s\n' % spelling)
    st = Settings()
    try:
      st.readFrom(cpath, 'cache')
    except Exception:
      continue                  # the daemon refuses to start with this value: no listener exists
    e13.wm.settings['USE_INSECURE_UNPICKLER'] = st['USE_INSECURE_UNPICKLER']
    for target in ('receiver', 'query'):
      recs.append(record(e13, [('global', 'othermod')], b'cverif_canary\nfire\n)R.', target,
                         'carbon.conf USE_INSECURE_UNPICKLER = %r' % spelling))
  # a connection whose connectionMade() failed half-way (Twisted logs that and keeps delivering the socket's data):
  # here the keep-alive socket option is refused by the kernel.  Whatever the receiver does with the frames that
  # follow, it must not unpickle them with anything but the restricted unpickler.
  import socket as _socket

  class RefusingSocket(object):
    type = _socket.SOCK_STREAM

    def setsockopt(self, *a):
      raise OSError(22, 'Invalid argument')

  class KeepAliveTransport(StringTransport):
    def getHandle(self):
      return RefusingSocket()

    def setTcpKeepAlive(self, v):
      pass
  e13.wm.settings['TCP_KEEPALIVE'] = True
  e13.wm.settings['TCP_KEEPIDLE'] = 0
  for cls_name in ('MetricPickleReceiver', 'CacheManagementHandler'):
    for payload in (b'cverif_canary\nfire\n)R.', pickle.dumps([('a', (1.0, 2.0))], protocol=2)[:-1] + b'cverif_canary\nfire\n)R0.'):
      r = getattr(e13.wm.protocols, cls_name)()
      del e13.canary.CALLS[:]
      try:
        r.makeConnection(KeepAliveTransport())
      except Exception:
        pass
      try:
        r.dataReceived(struct.pack('!L', len(payload)) + payload)
      except Exception:
        pass
      ctx.evaluations += 1
      if e13.canary.CALLS:
        ctx.violation(WHAT['global-called'] + ' [%s whose connectionMade() failed (socket option refused) before the unpickler was chosen]' % cls_name,
                      dict(receiver=cls_name, payload=repr(payload), calls=[c[0] for c in e13.canary.CALLS]), signature='global-called')
      try:
        e13.wm.state.connectedMetricReceiverProtocols.discard(r)
      except Exception:
        pass
  e13.wm.settings['TCP_KEEPALIVE'] = False
  del e13.canary.CALLS[:]
  # instance sections ([cache:b]) override the program section: an instance that switches the insecure unpickler
  # OFF must get the safe one, whatever spelling of "off" it uses
  for base_val, inst_val in (('True', 'False'), ('True', 'no'), ('True', '0'), ('True', 'off'), ('on', 'False'), ('False', None)):
    cpath = os.path.join(ctx.scratch, 'carbon-unpickler-inst.conf')
    with open(cpath, 'w') as fh:
      fh.write('[cache]\nUSE_INSECURE_UNPICKLER = %s\n[cache:b]\nLOG_UPDATES = False\n' % base_val)
      if inst_val is not None:
        fh.write('USE_INSECURE_UNPICKLER = %s\n' % inst_val)
    st = Settings()
    try:
      st.readFrom(cpath, 'cache')
      st.readFrom(cpath, 'cache:b')
    except Exception:
      continue
    e13.wm.settings['USE_INSECURE_UNPICKLER'] = st['USE_INSECURE_UNPICKLER']
    for target in ('receiver', 'query'):
      recs.append(record(e13, [('global', 'othermod')], b'cverif_canary\nfire\n)R.', target,
                         'carbon.conf [cache] USE_INSECURE_UNPICKLER = %s, [cache:b] USE_INSECURE_UNPICKLER = %s (instance b)' % (base_val, inst_val)))
  # history: connections were accepted while the insecure unpickler was switched on (plain datapoints only); the switch
  # is off for the connections that follow - they get the restricted unpickler
  e13.wm.settings['USE_INSECURE_UNPICKLER'] = True
  plain = pickle.dumps([('a.b', (1.0, 2.0))], protocol=2)
  for cls_name, payload in (('MetricPickleReceiver', plain), ('CacheManagementHandler', pickle.dumps(dict(type='cache-query', metric='a.b'), protocol=2))):
    r = getattr(e13.wm.protocols, cls_name)()
    try:
      r.makeConnection(StringTransport())
      r.dataReceived(struct.pack('!L', len(payload)) + payload)
    except Exception:
      pass
    try:
      e13.wm.state.connectedMetricReceiverProtocols.discard(r)
    except Exception:
      pass
  e13.wm.settings['USE_INSECURE_UNPICKLER'] = False
  for target in ('receiver', 'query'):
    recs.append(record(e13, [('global', 'othermod')], b'cverif_canary\nfire\n)R.', target,
                       'a connection accepted after earlier ones had been served in insecure mode'))
  # the same history in a FRESH process, where the insecure connection is the very first one the daemon serves
  import subprocess
  import json as _json
  child = r'''
import sys, json, pickle, struct, types
sys.path[:0] = %r
from harness import c13
ctx = types.SimpleNamespace(scratch=%r)
e13 = c13.Env13(ctx)
from twisted.internet.testing import StringTransport
e13.wm.settings['USE_INSECURE_UNPICKLER'] = True
for cls_name, payload in (('MetricPickleReceiver', pickle.dumps([('a.b', (1.0, 2.0))], protocol=2)),
                          ('CacheManagementHandler', pickle.dumps(dict(type='cache-query', metric='a.b'), protocol=2))):
  r = getattr(e13.wm.protocols, cls_name)()
  try:
    r.makeConnection(StringTransport())
    r.dataReceived(struct.pack('!L', len(payload)) + payload)
  except Exception:
    pass
  e13.wm.state.connectedMetricReceiverProtocols.discard(r)
e13.wm.settings['USE_INSECURE_UNPICKLER'] = False
out = []
for target in ('receiver', 'query'):
  out.append(c13.record(e13, [('global', 'othermod')], b'cverif_canary\nfire\n)R.', target,
                        'first connections of a fresh process served in insecure mode, then the switch is off'))
print('RECS ' + json.dumps(out))
''' % ([p_ for p_ in sys.path if p_], ctx.scratch)
  pr = subprocess.run([sys.executable, '-c', child], capture_output=True, text=True, timeout=300, cwd=ctx.scratch)
  got = [l for l in pr.stdout.splitlines() if l.startswith('RECS ')]
  if not got:
    raise Machinery('C13 history child gave no result: %s' % (pr.stdout[-500:] + pr.stderr[-1500:]))
  recs.extend(_json.loads(got[-1][5:]))
  # C. exhaustive lookup sweep over loaded modules
  pairs = []
  for mname in sorted(sys.modules):
    m = sys.modules.get(mname)
    if m is None or mname.startswith('harness'):
      continue
    try:
      attrs = sorted(a for a in vars(m) if isinstance(a, str))
    except TypeError:
      continue
    for a in attrs:
      if '\n' in a or '\n' in mname:
        continue
      pairs.append((mname, a))
  stride = ctx.pick(23, 1)
  off = rng.randrange(stride)
  ctx.cov['sweep_pairs_total'] = len(pairs)
  nsweep = 0
  for idx in range(off, len(pairs), stride):
    mod, name = pairs[idx]
    proto = (0, 2, 4)[idx % 3]
    val = op_global(mod, name, proto, rng)
    payload = ((b'\x80' + bytes([proto])) if proto >= 2 else b'') + val + b'.'
    recs.append(record(e13, [('global', 'othermod')], payload, 'receiver' if idx % 2 else 'query', 'sweep %s.%s' % (mod, name)))
    nsweep += 1
  ctx.cov['sweep_pairs_tried'] = nsweep
  ctx.exhaustive = (stride == 1)
  ctx.evaluations = len(recs)
  cfg = tlc.cfg_text(spec='Spec', constants=dict(Mode='"trace"', MaxOps=50, Py3='TRUE'), constraints=['Report'])
  verdicts = {}
  CH = 3000
  for k in range(0, len(recs), CH):
    chunk = recs[k:k + CH]
    r, done, bad = tlc.validate_batch('Unpickle', cfg, ctx.scratch, chunk, workers=8, timeout=3000)
    tlc.check_ok(r, 'C13 cases')
    ctx.states += r.distinct
    ctx.transitions += r.generated
    got = {}
    for v in tlc.extract_prints(r.out, 'DONE'):
      got[v[1]] = set()
    for v in tlc.extract_prints(r.out, 'F'):
      got.setdefault(v[1], set()).add(v[2])
    if len(got) != len(chunk):
      raise Machinery('C13: %d of %d cases judged\n%s' % (len(got), len(chunk), r.out[-2500:]))
    for i in range(1, len(chunk) + 1):
      verdicts[k + i - 1] = got[i]
  for i, rec in enumerate(recs):
    ctx.traces += 1
    if any(o[1] != 'none' for o in rec['ops']):
      ctx.nontriv(i)
    for f in sorted(verdicts[i] & PROP):
      ctx.violation(WHAT[f] + ' [%s, %s]' % (rec['target'], rec['what']),
                    dict(what=rec['what'], target=rec['target'], payload_hex=rec['hex'], looked=rec['looked'], called=rec['called'],
                         imported=rec['imported']), signature=f)
  ctx.sample(dict(kind='unpickle case', what=recs[0]['what'], ops=recs[0]['ops'], outcome=recs[0]['outcome'], payload_hex=recs[0]['hex'][:80]))
  ctx.sample(dict(kind='unpickle case', what=recs[-1]['what'], outcome=recs[-1]['outcome'], payload_hex=recs[-1]['hex'][:80]))
  # negative control: the plain pickle module does load the canary - the observation channel works
  log = []
  spy = Spy(pickle, log)
  del e13.canary.CALLS[:]
  try:
    spy.loads(b'cverif_canary\nfire\n)R.')
  except Exception:
    pass
  ctx.negative_control('the plain pickle module (insecure unpickler) calls the canary and the channel sees it', bool(e13.canary.CALLS))
  import copy
  bad = copy.deepcopy(recs[0])
  bad['called'] = ['fire']
  r, done, b2 = tlc.validate_batch('Unpickle', cfg, ctx.scratch, [bad], workers=1)
  fl = set(v[2] for v in tlc.extract_prints(r.out, 'F'))
  ctx.negative_control('a canary call injected into a record', 'global-called' in fl)


def replay(ctx, rp):
  raise NotImplementedError('rerun ./check C13 with the same VERIF_SEED')
