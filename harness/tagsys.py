"""carbon.writer.TagQueue against TagQueue.tla: model check, then random call sequences on the real class."""
from . import tlc
from .core import Machinery


def model(ctx):
  for mx, iv in ((2, 2), (0, 3)):
    cfg = tlc.cfg_text(spec='Spec', constants=dict(Mode='"model"', Metrics='{1,2}', MaxSize=mx, Interval=iv, MaxOps=ctx.pick(5, 6), MaxBatch=2),
                       invariants=['Bounded', 'BatchShape', 'CounterRange'], properties=['AddsFirst'])
    res = tlc.check_ok(tlc.run('TagQueue', cfg, ctx.scratch, coverage=True), 'TagQueue model')
    ctx.add_tlc('TagQueue[max=%d,interval=%d]' % (mx, iv), res, must_cover=None if res.violated else ['Add', 'Update', 'GetBatch'])
    if res.violated:
      raise Machinery('TagQueue.tla violates %s' % res.violated)


def section(ctx, writer_module):
  model(ctx)
  rng = ctx.rng
  groups = {}
  for k in range(ctx.pick(30, 300)):
    mx, iv = rng.choice([0, 1, 2, 3]), rng.choice([1, 2, 3])
    q = writer_module.TagQueue(maxsize=mx, update_interval=iv)
    ev = []
    for _ in range(rng.randint(4, 14)):
      r = rng.random()
      m = rng.randint(1, 4)
      if r < 0.4:
        q.add(m)
        e = dict(op='add', m=m, n=0, got=[])
      elif r < 0.75:
        q.update(m)
        e = dict(op='update', m=m, n=0, got=[])
      else:
        n = rng.randint(1, 3)
        e = dict(op='batch', m=0, n=n, got=list(q.getbatch(n)))
      e['na'], e['nu'] = q.add_queue.qsize(), q.update_queue.qsize()
      ev.append(e)
      ctx.evaluations += 1
    groups.setdefault((mx, iv), []).append(dict(ev=ev))
  nbad = 0
  for (mx, iv), traces in sorted(groups.items()):
    cfg = tlc.cfg_text(spec='Spec', constants=dict(Mode='"trace"', Metrics='{}', MaxSize=mx, Interval=iv, MaxOps=0, MaxBatch=3), constraints=['Report'])
    res, done, bad = tlc.validate_batch('TagQueue', cfg, ctx.scratch, traces, workers=2)
    tlc.check_ok(res, 'TagQueue traces')
    ctx.states += res.distinct
    ctx.transitions += res.generated
    got = {}
    for v in tlc.extract_prints(res.out, 'DONE'):
      got[v[1]] = set()
    for v in tlc.extract_prints(res.out, 'F'):
      got.setdefault(v[1], set()).add(v[2])
    if len(got) != len(traces):
      raise Machinery('TagQueue: %d of %d traces judged\n%s' % (len(got), len(traces), res.out[-2000:]))
    for i, t in enumerate(traces):
      for f in sorted(got[i + 1]):
        nbad += 1
        ctx.note_drift('TagQueue(maxsize=%d, update_interval=%d): %s differs from TagQueue.tla; calls %s'
                       % (mx, iv, f, [(e['op'], e['m'] or e['n'], e['got']) for e in t['ev']]))
  ctx.cov['tagqueue_sequences'] = sum(len(v) for v in groups.values())
  # binding: a corrupted batch must be noticed
  import copy
  for (mx, iv), traces in sorted(groups.items()):
    t = next((t for t in traces if any(e['op'] == 'batch' and e['got'] for e in t['ev'])), None)
    if t is None:
      continue
    b = copy.deepcopy(t)
    for e in b['ev']:
      if e['op'] == 'batch' and e['got']:
        e['got'] = e['got'][::-1] + [9]
        break
    cfg = tlc.cfg_text(spec='Spec', constants=dict(Mode='"trace"', Metrics='{}', MaxSize=mx, Interval=iv, MaxOps=0, MaxBatch=3), constraints=['Report'])
    res, done, bad = tlc.validate_batch('TagQueue', cfg, ctx.scratch, [b], workers=1)
    fl = set(v[2] for v in tlc.extract_prints(res.out, 'F'))
    if not nbad:
      ctx.negative_control('TagQueue: a recorded batch altered', 'batch' in fl)
    break
