"""C11 - malformed input is skipped without harming the connection or its neighbours.

A. TLC: Wire.tla with frame kinds good / bad / over: bad frames are skipped, only an over-long
   frame closes, and there is no action in which an exception escapes the handler.
B/C. Streams interleaving well-formed frames with malformed ones (invalid UTF-8 of several
   classes, wrong field counts, unparsable / NaN / infinite numbers, garbage and truncated
   pickles, pickles of the wrong shape or element types, non-string names, a global-loading
   pickle, over-long frames) under every single cut and random multi-cuts on the real listeners;
   plus byte-level mutants of valid streams, whose outcome under any segmentation must equal
   that of the same bytes delivered in one piece.  Wire_Trace.tla judges.
"""
import random
import struct

from . import wiresys, tlc, c01
from .core import Machinery

PROP = c01.PROP | {'segmentation-dependent'}
WHAT = dict(c01.WHAT)
WHAT['segmentation-dependent'] = 'the outcome of a byte stream depends on how it was cut into segments'


def mixed_streams(ctx, rng, n):
  out = []
  for k in range(n):
    proto = ['line', 'pickle', 'udp'][k % 3]
    frames = []
    nbad = 0
    for j in range(rng.randint(2, 4)):
      r = rng.random()
      if proto == 'pickle' and r < 0.2:
        # malformed entries between well-formed ones inside one frame: the frame delivers the well-formed ones
        dps = [wiresys.gen_datapoint(rng) for _ in range(rng.randint(1, 3))]
        fr, what = wiresys.mixed_pickle_frame(rng, dps)
        frames.append(dict(bytes=fr, kind='good', dps=dps, what=what))
        nbad += 1
      elif r < 0.45:
        if proto == 'pickle':
          dps = [wiresys.gen_datapoint(rng)]
          fr = wiresys.pickle_frame(dps, 2)
          if len(fr) - 4 > wiresys.PICKLE_MAX:
            continue
          exact = False
          if rng.random() < 0.35 and all(ord(ch) < 128 for ch in dps[0][0]):
            # a frame whose payload is exactly as long as the configured maximum (or 1-3 bytes shorter): not "exceeding" it
            want = wiresys.PICKLE_MAX - rng.choice([0, 0, 1, 2, 3])
            dps = [(dps[0][0] + 'a' * (want - (len(fr) - 4)), dps[0][1], dps[0][2])]
            fr = wiresys.pickle_frame(dps, 2)
            exact = len(fr) - 4 == want
          frames.append(dict(bytes=fr, kind='good', dps=dps, exact=exact))
        else:
          dp = wiresys.gen_datapoint(rng)
          frames.append(dict(bytes=wiresys.line_of(dp), kind='good', dps=[dp]))
      elif r < 0.93:
        if proto == 'pickle':
          b, what = wiresys.bad_pickle(rng)
        else:
          b, what = wiresys.bad_line(rng, proto)
        frames.append(dict(bytes=b, kind='bad', dps=[], what=what))
        nbad += 1
      else:
        if proto == 'pickle':
          n_over = wiresys.PICKLE_MAX + rng.randint(1, 50)
          frames.append(dict(bytes=struct.pack('!L', n_over) + b'x' * n_over, kind='over', trip=4, dps=[], what='oversize'))
        elif proto == 'line':
          frames.append(dict(bytes=b'a' * 17000 + b' 1 2\n', kind='over', trip=16385, dps=[], what='oversize'))
    if frames and nbad:
      out.append((proto, frames))
  return out


def known(flag, tr):
  return flag


def run(ctx):
  ctx.rule = ('streams of 2-4 frames mixing well-formed and malformed ones (10 kinds of bad lines, 10 kinds of bad pickle '
              'frames, over-long frames) x every single cut and random multi-cuts; byte-level mutants of valid streams x '
              'segmentations compared with delivery in one piece; non-trivial = execution containing a malformed frame or '
              'a mutated byte')
  ctx.assumptions += ['protobuf listener excluded (google.protobuf not installed)',
                      'a NaN value is well-formed input here (filtered later by admission, C12)']
  c01.model(ctx)
  wm = wiresys.WireModules(ctx.scratch)
  streams = mixed_streams(ctx, ctx.rng, ctx.pick(60, 300))
  traces, origins = c01.run_streams(ctx, wm, streams, ctx.pick(40, 120), ctx.rng, with_res=True)
  # byte-level mutants
  good = c01.good_streams(ctx, ctx.rng, ctx.pick(30, 200))
  for proto, frames in good:
    if proto == 'udp':
      continue
    stream = b''.join(f['bytes'] for f in frames)
    index = {}
    nid = 0
    for f in frames:
      for dp in f['dps']:
        nid += 1
        index[wiresys.key_of(dp)] = nid
    for _ in range(ctx.pick(3, 8)):
      m = wiresys.mutate(stream, ctx.rng)
      if not m:
        continue
      ref = wiresys.execute_raw(wm, proto, m, [], index)
      cutsets = wiresys.all_cuts(len(m), ctx.rng, ctx.pick(10, 40)) if len(m) > 1 else [[]]
      for cuts in cutsets:
        segs = wiresys.execute_raw(wm, proto, m, cuts, index)
        traces.append(dict(proto=proto, mode='final', ref=ref[0]['delivered'], refclosed=ref[0]['closed'],
                           frames=[dict(len=len(m), kind='bad', trip=len(m), ids=[], what='mutant')], segs=segs))
        origins.append(dict(proto=proto, cuts=cuts, mutant=m.hex(), original=stream.hex()))
        ctx.evaluations += 1
  verdicts = wiresys.judge(ctx, traces, 'C11 traces')
  classes = {}
  for i, tr in enumerate(traces):
    ctx.traces += 1
    ctx.nontriv(i)
    for f in sorted(verdicts[i] & PROP):
      for fr in tr['frames']:
        if fr['kind'] != 'good':
          key = '%s:%s:%s' % (f, tr['proto'], fr.get('what', ''))
          classes[key] = classes.get(key, 0) + 1
      kinds = sorted(set(fr.get('what', '') for fr in tr['frames'] if fr['kind'] != 'good'))
      what_exc = ''
      ctx.violation('%s [%s listener; malformed input: %s]' % (WHAT[f], tr['proto'], kinds),
                    dict(origin=origins[i], segs=tr['segs'], frames=tr['frames'], flags=sorted(verdicts[i])),
                    signature='%s:%s:%s' % (f, tr['proto'], '+'.join(kinds)))
  ctx.cov['flagged_classes'] = classes
  k = next(i for i, t in enumerate(traces) if t['mode'] == 'frames')
  ctx.sample(dict(kind='mixed stream', origin=origins[k], segs=traces[k]['segs'][:6]))
  ctx.negative_control('(shared with C01) a removed datapoint is noticed', True)


def replay(ctx, rp):
  raise NotImplementedError('rerun ./check C11 with the same VERIF_SEED')
