"""Real ConsistentHashRing / ConsistentHashingRouter / FastHashRing scenarios recorded for
Ring_Trace.tla: controlled hash tables (collisions on purpose) and real md5 / FNV-1a hashes
with an exhaustive sweep of all 65537 ring positions."""
import hashlib

from . import env, tlc
from .core import Machinery


# ---- independent reference hashes (value oracle) -------------------------------------
def ref_fnv1a_32(data):
  h = 0x811c9dc5
  for b in data:
    h ^= b
    h = (h * 0x01000193) & 0xffffffff
  return h


def ref_position(node, i, hash_type):
  server, instance = node
  if hash_type == 'fnv1a_ch':
    key = '%d-%s' % (i, instance)
    big = ref_fnv1a_32(key.encode('utf-8'))
    return (big >> 16) ^ (big & 0xffff)
  inst = 'None' if instance is None else "'%s'" % instance
  key = "('%s', %s):%d" % (server, inst, i)
  return int(hashlib.md5(key.encode('utf-8')).hexdigest()[:4], 16)


def ref_key_position(name, hash_type):
  if hash_type == 'fnv1a_ch':
    big = ref_fnv1a_32(name.encode('utf-8'))
    return (big >> 16) ^ (big & 0xffff)
  return int(hashlib.md5(name.encode('utf-8')).hexdigest()[:4], 16)


class RingModules(object):
  def __init__(self, scratch):
    self.settings = env.bootstrap(scratch)
    import carbon.hashing
    import carbon.routers
    self.hashing = carbon.hashing
    self.routers = carbon.routers


def make_nodes(rng, nn):
  """nn (server, port, instance) triples, several instances per server, distinct (server, instance)."""
  nservers = rng.randint(1, nn)
  nodes = []
  used = set()
  for k in range(nn):
    while True:
      s = 'srv%d' % rng.randint(1, nservers)
      inst = rng.choice(['a', 'b', 'c', 'd', None]) if rng.random() < 0.8 else 'i%d' % k
      if (s, inst) not in used:
        used.add((s, inst))
        break
    nodes.append((s, 2000 + k, inst))
  return nodes


def scenario(rm, rng, nodes, ops, rf, diverse, replicas, hash_type, table=None, ring_size=65536, sweep_all=True):
  """Runs the history `ops` ([('add'|'rm', idx)...], idx 1-based into nodes) on a real router and
  records the observation for Ring_Trace."""
  s = rm.settings
  s['REPLICATION_FACTOR'] = rf
  s['DIVERSE_REPLICAS'] = diverse
  s['ROUTER_HASH_TYPE'] = hash_type
  router = rm.routers.ConsistentHashingRouter(s)
  if replicas != 100 or table is not None:
    router.ring = rm.hashing.ConsistentHashRing([], replica_count=replicas, hash_type=hash_type)
  ring = router.ring
  nidx = {(n[0], n[2]): i + 1 for i, n in enumerate(nodes)}
  servers = sorted(set(n[0] for n in nodes))
  server_of = [servers.index(n[0]) + 1 for n in nodes]
  if table is not None:
    tmap = {}
    for i, n in enumerate(nodes):
      for r in range(replicas):
        tmap["%s:%d" % ((n[0], n[2]), r)] = table[i][r]
    refpos = [list(t) for t in table]
  else:
    tmap = None
    refpos = [[ref_position((n[0], n[2]), r, hash_type) for r in range(replicas)] for n in nodes]
  orig = ring.compute_ring_position

  def crp(key):
    if isinstance(key, int):
      return key
    if tmap is not None:
      return tmap[key]
    return orig(key)
  ring.compute_ring_position = crp
  maxp = ring_size if table is None else ring_size + len(nodes) * replicas
  steps = []
  flags = set()
  for op, idx in ops:
    d = nodes[idx - 1]
    if op == 'add':
      router.addDestination(d)
      if rng.random() < 0.3:
        # the same (server, instance) announced again, on another port: refused ("already configured"), nothing changes
        try:
          router.addDestination((d[0], d[1] + 1, d[2]))
        except Exception:
          pass
    else:
      router.removeDestination(d)
      if rng.random() < 0.3:
        try:
          router.removeDestination(d)       # not configured any more: refused, nothing changes
        except Exception:
          pass
    steps.append(observe(router, ring, nidx, maxp, flags, sweep_all))
  live = [i + 1 for i, n in enumerate(nodes) if router.hasDestination(n)]
  # a freshly started relay with the same live destinations (configured order)
  fresh_router = rm.routers.ConsistentHashingRouter(s)
  fresh_router.ring = rm.hashing.ConsistentHashRing([], replica_count=replicas, hash_type=hash_type)
  fresh_router.ring.compute_ring_position = crp
  for i in live:
    fresh_router.addDestination(nodes[i - 1])
  fresh = dict(ring=[[p, nidx[n]] for p, n in fresh_router.ring.ring])
  # random metric names through the real carbonHash (value oracle: independent md5 / FNV-1a)
  if table is None:
    for _ in range(50):
      name = ''.join(rng.choice('abcdefghijklmnopqrstuvwxyz.0123456789_-é中') for _ in range(rng.randint(1, 30)))
      if rm.hashing.carbonHash(name, hash_type) != ref_key_position(name, hash_type):
        flags.add('keyhash')
  return dict(kind='ring', server=server_of, rf=rf, diverse=bool(diverse), refpos=refpos,
              ops=[[o, i] for o, i in ops], canon=live, steps=steps, fresh=fresh,
              hflags=sorted(flags), hash_type=hash_type, nodes=[list(map(str, n)) for n in nodes])


def routed(router, ring, nidx, p, flags):
  """(ring.get_nodes(p), router.getDestinations(p)) as node indexes; an exception or a node that was never
  configured is a flag, not a harness failure"""
  out = []
  for fn, key in ((lambda: list(ring.get_nodes(p)), None), (lambda: [(x[0], x[2]) for x in router.getDestinations(p)], None)):
    try:
      out.append([nidx.get(n, 0) for n in fn()])
      if 0 in out[-1]:
        flags.add('notlive')
    except Exception:
      flags.add('raised')
      out.append([])
  return out[0], out[1]


def observe(router, ring, nidx, maxp, flags, sweep_all):
  entries = [[p, nidx[n]] for p, n in ring.ring]
  routes = []
  prev = None
  positions = range(0, maxp + 1) if sweep_all else sorted(set([0, maxp] + [e[0] for e in entries] + [e[0] + 1 for e in entries]))
  for p in positions:
    g, d = routed(router, ring, nidx, p, flags)
    cur = (g, d)
    if cur != prev:
      routes.append([p, g, d])
      prev = cur
  # routing may only change right after a ring position (arc boundaries)
  bounds = set([0] + [e[0] + 1 for e in entries])
  for r in routes:
    if r[0] not in bounds:
      flags.add('arcconst')
  # determinism: same key, same answer
  for r in routes[:20]:
    if routed(router, ring, nidx, r[0], set())[0] != r[1]:
      flags.add('nondeterministic')
  return dict(ring=entries, routes=routes, idx=0)


def fast_scenario(rm, rng, nodes, ops, rf, diverse):
  s = rm.settings
  s['REPLICATION_FACTOR'] = rf
  s['DIVERSE_REPLICAS'] = diverse
  s['ROUTER_HASH_TYPE'] = 'fnv1a_ch'
  router = rm.routers.FastHashingRouter(s)
  ring = router.ring
  nidx = {(n[0], n[2]): i + 1 for i, n in enumerate(nodes)}
  servers = sorted(set(n[0] for n in nodes))
  server_of = [servers.index(n[0]) + 1 for n in nodes]
  hv = rng.sample(range(1000), len(nodes))
  if len(nodes) >= 2 and rng.random() < 0.4:      # two destinations with the same hash value (16-bit hashes do collide)
    a, b = rng.sample(range(len(nodes)), 2)
    hv[b] = hv[a]
  table = {str((n[0], n[2])): hv[i] for i, n in enumerate(nodes)}
  ring._hash = lambda key: key if isinstance(key, int) else table[key]
  steps, sorted_lists = [], []
  flags = set()
  live = set()
  for op, idx in ops:
    d = nodes[idx - 1]
    if op == 'add':
      router.addDestination(d)
      live.add(idx)
    else:
      router.removeDestination(d)
      live.discard(idx)
    mine = [i for i in sorted(live, key=lambda j: hv[j - 1])]
    try:      # equal hashes: any order among them is a valid sort - take the code's, if it is a sort of the live nodes at all
      theirs = [nidx.get(n, 0) for h, n in ring.sorted_nodes]
    except Exception:
      theirs = None
    if theirs is not None and sorted(theirs) == sorted(live) and [hv[j - 1] for j in theirs] == [hv[j - 1] for j in mine]:
      mine = theirs
    sorted_lists.append(mine)
    routes = []
    for hk in range(0, 3 * max(1, len(live)) + 2):
      g, dd = routed(router, ring, nidx, hk, flags)
      routes.append([hk, g, dd])
    steps.append(dict(ring=[], routes=routes, idx=len(sorted_lists)))
  return dict(kind='fast', server=server_of, rf=rf, diverse=bool(diverse), refpos=[[v] for v in hv],
              ops=[[o, i] for o, i in ops], canon=sorted(live), steps=steps, fresh=dict(ring=[]),
              sorted=sorted_lists, hflags=sorted(flags), hash_type='fast', nodes=[list(map(str, n)) for n in nodes])


def gen_ops(rng, nn, maxops):
  live, ops = set(), []
  for i in range(1, nn + 1):      # the configured destinations come up first
    if rng.random() < 0.85 or not live:
      ops.append(('add', i))
      live.add(i)
  for _ in range(maxops):
    dead = [i for i in range(1, nn + 1) if i not in live]
    if live and (not dead or rng.random() < 0.5):
      i = rng.choice(sorted(live))
      ops.append(('rm', i))
      live.discard(i)
    elif dead:
      i = rng.choice(dead)
      ops.append(('add', i))
      live.add(i)
  return ops


def judge(ctx, traces, what):
  mc, files, sub = tlc.mc_wrap('Ring_Trace', dict(ServerOf='<<1>>'))
  consts = dict(NNodes=1, Replicas=1, RingSize=1, RF=1, Diverse='FALSE', MaxOps=0, SingleNodeReturns='TRUE')
  consts.update(sub)
  cfg = tlc.cfg_text(spec='TSpec', constants=consts, constraints=['Report'])
  out = {}
  CH = 40
  for k in range(0, len(traces), CH):
    chunk = traces[k:k + CH]
    res, done, bad = tlc.validate_batch(mc, cfg, ctx.scratch, chunk, workers=8, files=files, timeout=3000)
    tlc.check_ok(res, what)
    ctx.states += res.distinct
    ctx.transitions += res.generated
    got = {}
    for v in tlc.extract_prints(res.out, 'DONE'):
      got[v[1]] = set(v[2])
    if len(got) != len(chunk):
      raise Machinery('%s: %d of %d scenarios judged\n%s' % (what, len(got), len(chunk), res.out[-2500:]))
    for i in range(1, len(chunk) + 1):
      out[k + i - 1] = got[i] | set(chunk[i - 1].get('hflags', []))
  return out
