"""The real aggregator (AggregationProcessor / RuleManager / BufferManager / MetricBuffer)
on a virtual clock, recorded for Aggregator_Trace.tla; plus the pattern-language cases."""
import os
import random

from twisted.internet import task

from . import env, tlc
from .core import Machinery

NS = 3
# the <srv> field of series 3 contains '%' (a name is data, never a format string)
SRV = {1: 's1', 2: 's2', 3: 's3%s%'}
SRV_OF = {v: k for k, v in SRV.items()}
START = 40      # the virtual clock starts here so that older intervals exist from the beginning


class FakeTime(object):
  def __init__(self):
    self.now = 0.0

  def time(self):
    return self.now


class AggModules(object):
  def __init__(self, scratch):
    self.scratch = scratch
    self.settings = env.bootstrap(scratch)
    self.settings['CACHE_METRIC_NAMES_MAX'] = 0
    self.settings['CACHE_METRIC_NAMES_TTL'] = 0
    import carbon.events
    import carbon.state
    import carbon.instrumentation
    carbon.state.events = carbon.events
    carbon.state.instrumentation = carbon.instrumentation
    import carbon.aggregator.buffers as buffers
    import carbon.aggregator.rules as rules
    import carbon.aggregator.processor as processor
    self.buffers, self.rules, self.processor = buffers, rules, processor
    self.events, self.state = carbon.events, carbon.state
    self.base_generated = list(carbon.events.metricGenerated.handlers)


def decode(value):
  """sum of 4**id -> list of ids with multiplicity."""
  ids = []
  v = int(round(value))
  k = 0
  while v:
    d = v % 4
    ids += [k] * d
    v //= 4
    k += 1
  return ids


class AggRun(object):
  def __init__(self, am, cfg):
    self.am, self.cfg = am, cfg
    self.ev = []

  def build(self):
    am, cfg = self.am, self.cfg
    s = am.settings
    s['MAX_AGGREGATION_INTERVALS'] = cfg['M']
    s['WRITE_BACK_FREQUENCY'] = cfg['WB'] if cfg['WB'] > 0 else None
    s['FORWARD_ALL'] = cfg.get('forward_all', True)
    s['CACHE_METRIC_NAMES_MAX'] = cfg.get('cache_max', 0)
    s['CACHE_METRIC_NAMES_TTL'] = cfg.get('cache_ttl', 0)
    s['LOG_AGGREGATOR_MISSES'] = False
    self.clock = task.Clock()
    self.ftime = FakeTime()
    self.ftime.now = float(START)
    self.clock.advance(START)
    am.buffers.time = self.ftime
    clock = self.clock

    def LC(f, *a, **k):
      lc = task.LoopingCall(f, *a, **k)
      lc.clock = clock
      return lc
    am.buffers.LoopingCall = LC
    am.buffers.BufferManager.clear()
    rules_file = os.path.join(am.scratch, 'aggregation-rules.conf')
    with open(rules_file, 'w') as fh:
      fh.write('# generated\nout.<srv> (%d) = sum in.<srv>.*\n' % cfg['F'])
      # names that several rules match: one rule maps them onto themselves, another elsewhere (both orders)
      fh.write('keep.<srv> (%d) = sum keep.<srv>\n' % cfg['F'])
      fh.write('alt.<srv> (%d) = sum keep.<srv>\n' % cfg['F'])
      fh.write('alt2.<srv> (%d) = sum keep2.<srv>\n' % cfg['F'])
      fh.write('keep2.<srv> (%d) = sum keep2.<srv>\n' % cfg['F'])
    rm = am.rules.RuleManager
    rm.rules_last_read = 0.0
    rm.rules_file = rules_file
    rm.read_rules()
    if len(rm.rules) != 5:
      raise Machinery('rules file not loaded')
    am.events.metricGenerated.handlers[:] = list(am.base_generated)
    self.emitted = []
    am.events.metricGenerated.addHandler(lambda m, dp: self.emitted.append((m, dp)))
    self.proc = am.processor.AggregationProcessor()
    self.record0()

  def teardown(self):
    am = self.am
    am.buffers.BufferManager.clear()
    am.events.metricGenerated.handlers[:] = list(am.base_generated)
    import time
    am.buffers.time = time
    am.buffers.LoopingCall = task.LoopingCall

  def project(self):
    bm = self.am.buffers.BufferManager
    p = dict(buf=[], conf=[], next=[], timer=[], now=int(self.ftime.now))
    for s in range(1, NS + 1):
      mb = bm.buffers.get('out.' + SRV[s])
      if mb is None:
        p['buf'].append([])
        p['conf'].append(False)
        p['next'].append(0)
        p['timer'].append(False)
        continue
      recs = []
      for i, ib in mb.interval_buffers.items():
        ids = []
        for v in ib.values:
          ids += decode(v)
        recs.append([int(i), ids, -1 if ib.inactive_since is None else int(ib.inactive_since)])
      p['buf'].append(recs)
      p['conf'].append(bool(mb.configured))
      running = bool(mb.compute_task is not None and mb.compute_task.running)
      p['timer'].append(running)
      nxt = 0
      if running and mb.compute_task.call is not None:
        nxt = int(round(mb.compute_task.call.getTime()))
      p['next'].append(nxt)
    return p

  def record0(self):
    pass

  def input(self, s, ts, vid, selfnamed=False):
    name = (('keep' if (len(self.ev) + ts) % 2 else 'keep2') + '.' + SRV[s]) if selfnamed else 'in.' + SRV[s] + '.h%d' % (vid % 2)
    # every third datapoint carries a fractional timestamp late in its second (it belongs to the interval of floor(ts))
    fts = ts + 0.75 if (vid + ts) % 3 == 0 else ts
    dp = (fts, float(4 ** vid))
    out = list(self.proc.process(name, dp))
    fwdsame = 1 if all(o == (name, dp) for o in out) else 0
    e = dict(e='in', s=s, ts=ts, id=vid, selfnamed=bool(selfnamed), fwd=len(out), fwdsame=fwdsame, p=self.project())
    if selfnamed:
      # feeds the series keep.s<k>, which is outside the observed out.* series: only forwarding is judged
      e['e'] = 'inself'
    self.ev.append(e)

  def tick(self):
    self.emitted = []
    self.ftime.now += 1
    self.clock.advance(1)
    em = []
    for m, dp in self.emitted:
      if m.startswith('out.') and m[4:] in SRV_OF:
        em.append([SRV_OF[m[4:]], int(dp[0]), decode(dp[1])])
    self.ev.append(dict(e='tick', em=em, p=self.project()))


def random_run(am, cfg, rng, nevents):
  run = AggRun(am, cfg)
  run.build()
  vid = 0
  pending = None
  try:
    for _ in range(nevents):
      x = rng.random()
      now = int(run.ftime.now)
      if x < 0.12 and vid < 18:
        # backfill burst: one recent point, then points for more than MAX+1 older intervals (any order)
        s_ = rng.randint(1, NS)
        F = cfg['F']
        cur = now - now % F
        ivs = [cur - k * F for k in range(1, cfg['M'] + 2 + rng.randint(1, 3)) if cur - k * F >= 0]
        rng.shuffle(ivs)
        order = [cur] + ivs if rng.random() < 0.7 else ivs + [cur]
        for iv in order:
          if vid < 24:
            vid += 1
            run.input(s_, iv + rng.randint(0, F - 1), vid)
            pending = (s_, iv)          # the interval touched last: it gets another value right after the next flush
      elif x < 0.55 and vid < 24:
        vid += 1
        r = rng.random()
        if r < 0.5:
          ts = now + rng.randint(-1, 1)                     # current
        elif r < 0.8:
          ts = now - rng.randint(2, 3 * cfg['F'] + 2)       # late / out of order
        elif r < 0.9:
          ts = now - rng.randint(0, 60)                     # very old
        else:
          ts = now + rng.randint(1, 2 * cfg['F'])           # ahead of the clock
        ts = max(0, ts)
        if r >= 0.8 and r < 0.9 and rng.random() < 0.4:
          ts = -rng.randint(1, 2 * cfg['F'] + 1)            # from before the epoch (interval starts are still aligned downwards)
        if rng.random() < 0.1:
          run.input(rng.randint(1, NS), ts, 0, selfnamed=True)
          vid -= 1
        else:
          run.input(rng.randint(1, NS), ts, vid)
      else:
        run.tick()
        if pending is not None and vid < 26 and int(run.ftime.now) % cfg['F'] == 0:
          vid += 1
          run.input(pending[0], pending[1] + rng.randint(0, cfg['F'] - 1), vid)
          pending = None
    for _ in range((cfg['M'] + 4) * cfg['F']):              # let everything expire: idle series released
      run.tick()
  finally:
    run.teardown()
  return dict(kind='run', start=START, ev=run.ev, forwardAll=bool(cfg.get('forward_all', True)), maxts=int(run.ftime.now) + 3 * cfg['F'] + 2)


def scripted_run(am, cfg, script):
  """script: list of ('in', s, ts) / ('tick',) from a TLC behaviour."""
  run = AggRun(am, cfg)
  run.build()
  vid = 0
  try:
    for step in script:
      if step[0] == 'in':
        vid += 1
        run.input(step[1], step[2], vid)
      else:
        run.tick()
  finally:
    run.teardown()
  return dict(kind='run', start=START, ev=run.ev, forwardAll=bool(cfg.get('forward_all', True)), maxts=int(run.ftime.now) + 3 * cfg['F'] + 2)


def consts_of(cfg):
  return dict(Series='{1,2,3}', F=cfg['F'], M=cfg['M'], WB=cfg['WB'], MaxTs=0, MaxNow=0, MaxInputs=0)


def judge(ctx, cfg, traces, what):
  tcfg = tlc.cfg_text(spec='TSpec', constants=consts_of(cfg), constraints=['Report'])
  out = {}
  CH = 200
  for k in range(0, len(traces), CH):
    chunk = traces[k:k + CH]
    res, done, bad = tlc.validate_batch('Aggregator_Trace', tcfg, ctx.scratch, chunk, workers=4)
    tlc.check_ok(res, what)
    ctx.states += res.distinct
    ctx.transitions += res.generated
    got = {}
    for v in tlc.extract_prints(res.out, 'DONE'):
      got[v[1]] = set()
    for v in tlc.extract_prints(res.out, 'F'):
      got.setdefault(v[1], set()).add(v[2])
    if len(got) != len(chunk):
      raise Machinery('%s: %d of %d traces judged\n%s' % (what, len(got), len(chunk), res.out[-2500:]))
    for i in range(1, len(chunk) + 1):
      out[k + i - 1] = got[i]
  return out


# ---------------------------------------------------------------------------------------
# rule pattern language cases (judged by Aggregator_Trace!MatchFlags)

ALPHA = 'abcx1'


def enc(seg):
  return [ALPHA.index(c) + 1 if c in ALPHA else 90 + ord(c) % 9 for c in seg]


def render_part(p):
  if p['k'] == 'lit':
    return ''.join(ALPHA[c - 1] for c in p['v'])
  if p['k'] == 'star':
    return '*'
  if p['k'] == 'glob':
    return ''.join(ALPHA[c - 1] for c in p['pre']) + '*' + ''.join(ALPHA[c - 1] for c in p['post'])
  if p['k'] == 'field':
    return '<f%d>' % p['n']
  return '<<f%d>>' % p['n']


def gen_rule(rng):
  n = rng.randint(1, 4)
  pat, nf, has_d = [], 0, False
  for k in range(n):
    x = rng.random()
    if x < 0.4:
      pat.append(dict(k='lit', v=enc(''.join(rng.choice('abc') for _ in range(rng.randint(1, 2))))))
    elif x < 0.55:
      pat.append(dict(k='star'))
    elif x < 0.65:
      pre, post = rng.choice(['', 'a', 'ab']), rng.choice(['', 'c', 'x'])
      if not pre and not post:
        pat.append(dict(k='star'))     # a bare '*' is the whole-segment wildcard
      else:
        pat.append(dict(k='glob', pre=enc(pre), post=enc(post)))
    elif x < 0.9 or has_d:
      nf += 1
      pat.append(dict(k='field', n=nf))
    else:
      nf += 1
      has_d = True
      pat.append(dict(k='dfield', n=nf))
  out = [dict(k='lit', v=enc('agg'.replace('g', 'b')))]
  refs = list(range(1, nf + 1))
  rng.shuffle(refs)
  for f in refs[:rng.randint(0, nf)]:
    out.append(dict(k='ref', n=f))
    if rng.random() < 0.3:
      out.append(dict(k='lit', v=enc('x')))
  return pat, out


def gen_name(rng, pat):
  """names that hit and that narrowly miss the pattern"""
  segs = []
  for p in pat:
    r = rng.random()
    if p['k'] == 'lit':
      s = ''.join(ALPHA[c - 1] for c in p['v'])
      if r < 0.15:
        s = s + rng.choice('ab')
      elif r < 0.25:
        s = s[:-1]
    elif p['k'] == 'glob':
      s = ''.join(ALPHA[c - 1] for c in p['pre']) + rng.choice(['', 'b', 'bb']) + ''.join(ALPHA[c - 1] for c in p['post'])
      if r < 0.15:
        s = 'x' + s
    elif p['k'] == 'dfield':
      s = '.'.join(rng.choice(['a', 'b', 'ab', '1']) for _ in range(rng.randint(1, 3)))
    else:
      s = rng.choice(['a', 'b', 'cc', '1', 'x1'])
      if r < 0.1:
        s = s + '.' + s
      elif r < 0.15:
        s = ''
    segs.append(s)
  name = '.'.join(segs)
  r = rng.random()
  if r < 0.08:
    name = 'a.' + name
  elif r < 0.16:
    name = name + '.b'
  return name


def match_cases(am, rng, n, with_newline=False):
  out = []
  for _ in range(n):
    pat, outp = gen_rule(rng)
    in_text = '.'.join(render_part(p) for p in pat)
    out_text = '.'.join(render_part(p) if p['k'] == 'lit' else '<f%d>' % p['n'] for p in outp)
    try:
      rule = am.rules.AggregationRule(in_text, out_text, 'sum', 10)
    except Exception as e:
      raise Machinery('generated rule %r does not build: %r' % (in_text, e))
    for _ in range(4):
      name = gen_name(rng, pat)
      # (names with a newline only for patterns without <<field>>: '.' in its regex does not match
      # a newline and the property does not say whether it should)
      if with_newline and rng.random() < 0.3 and not any(p['k'] == 'dfield' for p in pat):
        name = name + '\n'
      got = rule.get_aggregate_metric(name)
      again = rule.get_aggregate_metric(name)       # through the name cache when it is enabled
      rec = dict(kind='match', ev=[], pat=pat, out=outp, name=[enc(s) for s in name.split('.')],
                 matched=0 if got is None else 1, obs=[] if got is None else [enc(s) for s in got.split('.')],
                 text=[in_text, out_text, name, got or ''], forwardAll=True, maxts=0)
      if again != got:
        rec['matched'] = 2     # cache returned something else
      out.append(rec)
  return out
