"""Real carbon.writer.writeForever() under the deterministic scheduler, against the real
cache, an in-memory database plugin with a fault script, real instrumentation counters
and the twisted error log.  Traces are judged by WriterLin.tla."""
import json
import types

from . import env, sched, tlc, cachesys
from .core import Machinery


class FakeReactor(object):
  """what carbon.writer needs of the reactor; records what WriterService.startService() registers so that the
  harness threads run exactly that: the functions handed to callInThread and the shutdown triggers by phase"""
  def __init__(self):
    self.running = True
    self.triggers = []      # (phase, event, callable)
    self.in_thread = []     # callables

  def addSystemEventTrigger(self, phase, event, f, *a, **k):
    self.triggers.append((phase, event, f))

  def callInThread(self, f, *a, **k):
    self.in_thread.append(f)


class SchedTime(object):
  """time module double: virtual clock; sleep() is a scheduling point."""
  def __init__(self, run):
    self.run = run

  def time(self):
    return self.run.now

  def sleep(self, dt):
    self.run.sched.point('sleep')
    self.run.now += max(dt, 0)


class CorruptFile(Exception):
  """a backend-specific failure that is not an OSError (no .filename, .errno)"""


class MemoryDB(object):
  """Stands for Whisper/Ceres (not installed): the carbon TimeSeriesDatabase API."""
  aggregationMethods = ['average', 'sum', 'last', 'max', 'min']

  def __init__(self, run, preexisting, faults):
    self.run = run
    self.files = set(preexisting)
    self.faults = set(faults)      # indices of calls that raise
    self.ncalls = 0
    self.creates = []

  def _call(self, op, metric, pts=()):
    run = self.run
    run.sched.point('db')
    run.snap_cnt()
    idx = self.ncalls
    self.ncalls += 1
    fail = idx in self.faults
    if run.cfg.get('fault_writes'):
      # the fault script counts write() calls only: the n-th write fails
      self.nwrites = getattr(self, 'nwrites', 0) + (1 if op == 'write' else 0)
      fail = op == 'write' and (self.nwrites - 1) in self.faults
    has = metric in self.files
    ev = dict(k='db', op=op, m=run.mid(metric), ok=0 if fail else 1, res=int(has), has=int(has),
              pts=[[run.tlog(a), cachesys.dec(b)] for a, b in pts], idx=idx, now=int(run.now * 1024))
    run.ev.append(ev)
    run.pending_cnt = True
    if fail:
      # backends fail with OSError (disk) as well as with their own exception classes (whisper.CorruptWhisperFile)
      raise (IOError if idx % 2 == 0 else CorruptFile)('injected fault in %s(%s) [call %d]' % (op, metric, idx))
    return has

  def exists(self, metric):
    return self._call('exists', metric)

  def create(self, metric, retentions, xff, method):
    self._call('create', metric)
    self.files.add(metric)
    self.creates.append((metric, retentions, xff, method))

  def write(self, metric, datapoints):
    pts = list(datapoints)
    self._call('write', metric, pts)

  def validateArchiveList(self, archiveList):
    pass

  def getFilesystemPath(self, metric):
    return None


class WriterRun(object):
  def __init__(self, wm, cfg, r_ops, faults=(), preexisting=(), stop=True):
    self.wm = wm
    self.cfg = cfg
    self.r_ops = r_ops
    self.faults = faults
    self.preexisting = preexisting
    self.stop = stop
    self.ev = []
    self.lost = []
    self.now = 100.0
    self.ts0 = 100
    self.pending_cnt = False
    self.alias = dict(cfg.get('alias') or {})
    self.unalias = {v: k for k, v in self.alias.items()}

  def mid(self, name):
    if name is None:
      return 0
    name = self.unalias.get(name, name)
    if name[:1] == 'm' and name[1:].isdigit():
      return int(name[1:])
    return 99            # a name nobody stored under (e.g. a "cleaned-up" spelling of a stored name)

  def real(self, m):
    """cfg['alias']: workload metric mK is really called alias['mK'] (names with empty path components, look-alikes)"""
    return self.alias.get(m, m)

  # with cfg['frac'] the stored timestamps are ts0 + 0.25, ts0 + 0.5, ... (several per whole second); they are
  # logged in quarter seconds so that they stay distinct integers
  def tlog(self, x):
    return int(round(x * 4)) if self.cfg.get('frac') else int(x)

  def snap_cnt(self, force=False):
    st = self.wm.instrumentation.stats
    self.ev.append(dict(k='cnt', creates=st.get('creates', 0), errors=st.get('errors', 0),
                        dropped=st.get('droppedCreates', 0), committed=st.get('committedPoints', 0),
                        logerr=len(self.errlog.errors)))
    self.pending_cnt = False

  def build(self):
    wm = self.wm
    self.sched = sched.Scheduler(files=() if self.cfg.get('coarse') else wm.files, max_steps=60000)
    st = SchedTime(self)
    wm.writer.time = st
    wm.cache.time = st
    wm.util.time = st.time
    wm.util.sleep = st.sleep
    self.reactor = FakeReactor()
    wm.writer.reactor = self.reactor
    # the real service wiring (reload tasks are not started: their LoopingCalls get a private clock)
    from twisted.internet import task as _task
    import signal as _signal
    svc = wm.writer.WriterService()
    svc.storage_reload_task.clock = _task.Clock()
    svc.aggregation_reload_task.clock = _task.Clock()
    old = _signal.getsignal(_signal.SIGHUP)
    try:
      svc.startService()
    finally:
      _signal.signal(_signal.SIGHUP, old)
    self.service = svc
    wm.settings['CACHE_WRITE_STRATEGY'] = self.cfg['strategy']
    wm.settings['MAX_CACHE_SIZE'] = float('inf')
    wm.settings['CACHE_SIZE_HARD_MAX'] = float('inf')
    wm.settings['CACHE_SIZE_LOW_WATERMARK'] = float('inf')
    # (the shutdown hook of an earlier run ASSIGNED settings.MIN_TIMESTAMP_LAG = 0: an instance attribute that would
    # shadow the item for every later run - a daemon starts without it)
    wm.settings.__dict__.pop('MIN_TIMESTAMP_LAG', None)
    wm.settings['MIN_TIMESTAMP_LAG'] = self.cfg.get('lag', 0)
    wm.settings['USE_FLOW_CONTROL'] = False
    # a receiver-side setting: the writer hands on what was cached, whatever the listeners would have rounded
    wm.settings['MIN_TIMESTAMP_RESOLUTION'] = self.cfg.get('res', 0)
    wm.settings['LOG_UPDATES'] = bool(self.cfg.get('log_updates', False))
    wm.settings['LOG_CREATES'] = bool(self.cfg.get('log_creates', False))
    wm.cache._Cache = None
    cache = self.cache = wm.cache.MetricCache()
    wm.instrumentation.stats.clear()
    self.errlog = env.ErrorLog().install()
    self.db = MemoryDB(self, [self.real(x) for x in self.preexisting], self.faults)
    wm.state.database = self.db
    wm.state.cacheTooFull = False
    # reset the token buckets the writer module built at import (fresh per run)
    for name in ('CREATE_BUCKET', 'UPDATE_BUCKET'):
      b = getattr(wm.writer, name)
      if b is not None:
        cap, rate = self.cfg['buckets'][name]
        setattr(wm.writer, name, wm.util.TokenBucket(cap, rate))
    # linearization-point hooks on the cache lock (no source change)
    self.r_pending = None
    self.w_pop = None
    self.w_snapshot = None

    def on_acquire(owner):
      if owner == 'W' and self.w_pop is not None:
        self.w_snapshot = sorted((self.tlog(a), cachesys.dec(b)) for a, b in cache.get(self.w_pop, {}).items())

    def on_release(owner):
      if owner == 'R' and self.r_pending is not None:
        m, ts, vid = self.r_pending
        if cache.get(m, {}).get(ts) == cachesys.enc(vid):
          self.ev.append(dict(k='stored', m=self.mid(m), ts=self.tlog(ts), id=vid))
        else:
          # the cache is unbounded in these runs: a datapoint that is not in the cache when store() drops the
          # lock went somewhere nobody will ever look (e.g. a per-metric dict that was popped meanwhile)
          self.lost.append([self.mid(m), self.tlog(ts), vid])
        self.r_pending = None
      elif owner == 'W' and self.w_pop is not None and self.w_snapshot is not None:
        self.ev.append(dict(k='drained', m=self.mid(self.w_pop), batch=[list(x) for x in self.w_snapshot]))
        self.w_snapshot = None
        self.w_logged = True
    cache.lock = self.sched.lock('cache', on_acquire=on_acquire, on_release=on_release)
    orig_pop = cache.pop

    def pop(metric):
      self.w_pop = metric
      self.w_logged = False
      try:
        return orig_pop(metric)
      finally:
        self.w_pop = None
    cache.pop = pop
    orig_drain = cache.drain_metric

    def drain_metric():
      self.w_logged = False
      self.snap_cnt()
      r = orig_drain()
      if r[0] is None:
        self.ev.append(dict(k='drained', m=0, batch=[]))
      elif not self.w_logged:
        # the pop did not go through the lock: record what the writer received
        self.ev.append(dict(k='drained', m=self.mid(r[0]), batch=[[self.tlog(a), cachesys.dec(b)] for a, b in r[1]]))
      return r
    cache.drain_metric = drain_metric
    self.sched.on_point = self.on_point

  def on_point(self, thread, kind):
    if self.pending_cnt and thread == 'W' and kind != 'db':
      # first scheduling point of the writer after a backend call: counters have settled?
      pass

  def teardown(self):
    import time
    wm = self.wm
    try:
      self.service.stopService()
    except Exception:
      pass
    self.errlog.remove()
    wm.cache._Cache = None
    wm.writer.time = time
    wm.cache.time = time
    wm.util.time = time.time
    wm.util.sleep = time.sleep

  def r_body(self):
    for op in self.r_ops:
      if op[0] == 'store':
        _, m, ts, vid = op
        ts = self.ts0 + (0.25 * ts if self.cfg.get('frac') else ts)            # timestamps close to the (virtual) present
        m = self.real(m)
        self.r_pending = (m, ts, vid)
        try:
          self.cache.store(m, (ts, cachesys.enc(vid)))
        except ValueError:
          pass      # bucketmax store failure inside the choose/pop window: listed finding F9 (C17)
        self.r_pending = None
      elif op[0] == 'tick':
        self.now += op[1]
      elif op[0] == 'bulkquery':
        # graphite-web asks the cache (reactor thread, no lock) about series, cached or not
        import pickle as _pickle
        import struct as _struct
        from twisted.internet.testing import StringTransport as _ST
        import carbon.protocols as _protocols
        h = _protocols.CacheManagementHandler()
        h.makeConnection(_ST())
        req = _pickle.dumps(dict(type='cache-query-bulk', metrics=[self.real(x) for x in op[1]]), protocol=2)
        h.dataReceived(_struct.pack('!L', len(req)) + req)
      self.sched.point('op')

  def w_body(self):
    # the writer thread runs what WriterService.startService() handed to reactor.callInThread first
    (self.reactor.in_thread[0] if self.reactor.in_thread else self.wm.writer.writeForever)()
    self.ev.append(dict(k='exit'))

  def s_body(self):
    # reactor.stop(): the 'before shutdown' triggers the service registered, then running := False
    self.sched.point('op')
    self.ev.append(dict(k='stopBefore', now=int(self.now * 1024)))
    for phase, event, f in self.reactor.triggers:
      if phase == 'before' and event == 'shutdown':
        f()
    self.sched.point('op')
    self.ev.append(dict(k='stopDuring'))
    self.reactor.running = False
    for phase, event, f in self.reactor.triggers:
      if phase == 'during' and event == 'shutdown':
        f()
    # 'during shutdown' Twisted also stops the thread pool, which joins the writer thread; only then 'after' triggers run
    if any(phase == 'after' and event == 'shutdown' for phase, event, f in self.reactor.triggers):
      w = [t for t in self.sched.threads if t.name == 'W'][0]
      while not w.done:
        self.sched.sleep_point()
      for phase, event, f in self.reactor.triggers:
        if phase == 'after' and event == 'shutdown':
          f()

  def execute(self, chooser):
    self.build()
    try:
      self.sched.spawn('R', self.r_body)
      self.sched.spawn('W', self.w_body)
      self.sched.spawn('S', self.s_body)
      log = self.sched.run(chooser)
      for t in self.sched.threads:
        if t.exc is not None:
          raise Machinery('workload thread %s died: %r' % (t.name, t.exc))
      self.snap_cnt()
      cached = [[self.mid(m), self.tlog(ts), cachesys.dec(v)] for m, d in self.cache.items() for ts, v in d.items()]
      self.ev.append(dict(k='end', cached=cached))
    finally:
      self.teardown()
    # counter snapshots: one after each db event is needed by the judge; add them where the
    # writer's next event follows (the counters are only touched by the writer thread)
    return dict(ev=self.finalize_events(), strategy=self.cfg['strategy'], lost=self.lost), log

  def finalize_events(self):
    return self.ev


class WriterModules(object):
  def __init__(self, scratch):
    self.settings = env.bootstrap(scratch)
    self.configured = None

  def configure(self, max_creates=None, max_updates=None, on_shutdown=None):
    """(Re)load carbon.writer so that its module-level buckets are built by the code under
    test from these settings."""
    s = self.settings
    key = (max_creates, max_updates, on_shutdown)
    if self.configured == key:
      return
    s['MAX_CREATES_PER_MINUTE'] = float('inf') if max_creates is None else max_creates
    s['MAX_UPDATES_PER_SECOND'] = float('inf') if max_updates is None else max_updates
    if on_shutdown is None:
      s.pop('MAX_UPDATES_PER_SECOND_ON_SHUTDOWN', None)
    else:
      s['MAX_UPDATES_PER_SECOND_ON_SHUTDOWN'] = on_shutdown
    # a tag queue of one slot that nobody drains (the tag writer thread is gone once the reactor stops):
    # registering a new series for tagging must never hold the writer up
    s['ENABLE_TAGS'] = True
    s['SKIP_TAGS_FOR_NONTAGGED'] = False
    s['TAG_QUEUE_SIZE'] = 1
    import carbon.state
    carbon.state.database = None
    self.util = env.fresh('carbon.util') if self.configured is None else __import__('carbon.util').util
    import carbon.cache
    import carbon.instrumentation
    import carbon.events
    self.cache = carbon.cache
    self.state = carbon.state
    self.state.instrumentation = carbon.instrumentation
    self.state.events = carbon.events
    self.instrumentation = carbon.instrumentation
    self.writer = env.fresh('carbon.writer')
    import carbon.protocols as _p
    self.files = {self.writer.__file__, self.cache.__file__, _p.__file__}
    self.buckets = {}
    if self.writer.CREATE_BUCKET is not None:
      self.buckets['CREATE_BUCKET'] = (self.writer.CREATE_BUCKET.capacity, self.writer.CREATE_BUCKET.fill_rate)
    if self.writer.UPDATE_BUCKET is not None:
      self.buckets['UPDATE_BUCKET'] = (self.writer.UPDATE_BUCKET.capacity, self.writer.UPDATE_BUCKET.fill_rate)
    self.configured = key


def insert_cnt(ev):
  return ev


def judge(ctx, traces, what):
  cfg = tlc.cfg_text(spec='Spec', constraints=['Report'])
  out = {}
  CH = 600
  for k in range(0, len(traces), CH):
    chunk = traces[k:k + CH]
    res, done, bad = tlc.validate_batch('WriterLin', cfg, ctx.scratch, chunk, workers=8)
    tlc.check_ok(res, what)
    ctx.states += res.distinct
    ctx.transitions += res.generated
    got = {}
    for v in tlc.extract_prints(res.out, 'DONE'):
      got[v[1]] = set()
    for v in tlc.extract_prints(res.out, 'F'):
      got.setdefault(v[1], set()).add(v[2])
    if len(got) != len(chunk):
      raise Machinery('%s: %d of %d traces judged\n%s' % (what, len(got), len(chunk), res.out[-2000:]))
    for i in range(1, len(chunk) + 1):
      out[k + i - 1] = got[i]
  return out
