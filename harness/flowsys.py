"""Cache-side flow control on the real objects: MetricCache + carbon.events + the wiring of
carbon.service.setupPipeline(['write']) + real MetricLineReceivers on StringTransports; a
storing/connection thread and a draining thread under the line-level scheduler."""
import math
import random

from twisted.internet.testing import StringTransport
from twisted.python.failure import Failure
from twisted.internet.error import ConnectionDone

from . import env, sched, tlc
from .core import Machinery


class EvProxy(object):
  """Stands in for a carbon.events.Event: logs start/end of a handler chain, then delegates."""
  def __init__(self, orig, name, run):
    self.__dict__['_orig'] = orig
    self.__dict__['_name'] = name
    self.__dict__['_run'] = run

  def __call__(self, *a, **k):
    run = self._run
    me = run.sched.current()
    t = me.name if me is not None else 'main'
    run.ev.append(dict(k='chain', ph='start', ev=self._name, t=t))
    try:
      return self._orig(*a, **k)
    finally:
      run.observe(t, 'chainend', force=False)
      run.ev.append(dict(k='chain', ph='end', ev=self._name, t=t))

  def __getattr__(self, n):
    return getattr(self._orig, n)


class FlowModules(object):
  def __init__(self, scratch):
    self.settings = env.bootstrap(scratch)
    import carbon.events
    import carbon.state
    import carbon.instrumentation
    import carbon.cache
    import carbon.protocols
    import carbon.service
    self.events, self.state, self.cache = carbon.events, carbon.state, carbon.cache
    self.protocols, self.service = carbon.protocols, carbon.service
    self.state.events = carbon.events
    self.state.instrumentation = carbon.instrumentation
    self.names = ('metricReceived', 'metricGenerated', 'cacheOverflow', 'cacheFull', 'cacheSpaceAvailable',
                  'pauseReceivingMetrics', 'resumeReceivingMetrics')
    self.base_events = {n: getattr(carbon.events, n) for n in self.names}
    self.base_handlers = {n: list(self.base_events[n].handlers) for n in self.names}
    self.files = {carbon.cache.__file__, carbon.events.__file__, carbon.protocols.__file__}


class FlowRun(object):
  def __init__(self, fm, cfg, s_ops, w_ops):
    self.fm, self.cfg, self.s_ops, self.w_ops = fm, cfg, s_ops, w_ops
    self.ev = []
    self.recv = {}
    self.last = None

  def build(self):
    fm = self.fm
    s = fm.settings
    mx = self.cfg['max']
    for n in fm.names:
      setattr(fm.events, n, fm.base_events[n])
      fm.base_events[n].handlers[:] = list(fm.base_handlers[n])
    s['MAX_CACHE_SIZE'] = mx
    s['USE_FLOW_CONTROL'] = True
    s['CACHE_SIZE_LOW_WATERMARK'] = mx * 0.95
    s['CACHE_SIZE_HARD_MAX'] = mx * 1.05
    s['CACHE_WRITE_STRATEGY'] = self.cfg.get('strategy', 'sorted')
    s['MIN_TIMESTAMP_LAG'] = 0
    s['METRIC_CLIENT_IDLE_TIMEOUT'] = None
    s['TCP_KEEPALIVE'] = False
    s['USE_WHITELIST'] = False
    s['MAX_RECEIVER_CONNECTIONS'] = float('inf')
    s['MIN_TIMESTAMP_RESOLUTION'] = 0
    s['RELAY_CACHE_METRICS'] = False
    s['ENABLE_TAGS'] = False
    s['CACHE_QUERY_PORT'] = 0
    s['CACHE_QUERY_INTERFACE'] = '127.0.0.1'
    fm.cache._Cache = None
    fm.state.cacheTooFull = False
    fm.state.metricReceiversPaused = False
    fm.state.connectedMetricReceiverProtocols.clear()
    fm.state.pipeline_processors = []
    fm.state.pipeline_processors_generated = []
    from twisted.application.service import MultiService
    self.root = MultiService()
    fm.service.setupPipeline(['write'], self.root, s)     # the real wiring of service.py
    self.cache = fm.cache.MetricCache()
    funcs = None
    if self.cfg.get('focus'):
      # scheduling points only where the two threads can interfere: the event dispatch loops, handler
      # registration, the writer's unlocked space check and the receivers' pause bookkeeping
      funcs = {fm.cache.__file__: {'_check_available_space'}, fm.protocols.__file__: {'pauseReceiving', 'resumeReceiving'}}
    self.sched = sched.Scheduler(files=fm.files, max_steps=40000, funcs=funcs)
    if self.cfg.get('focus'):
      # the reactor returns to its loop between callbacks and the writer between drains: free switches
      self.sched.voluntary = {'sleep', 'op'}
    self.cache.lock = self.sched.lock('cache')
    for n in ('cacheFull', 'cacheSpaceAvailable'):
      setattr(fm.events, n, EvProxy(fm.base_events[n], n, self))
    self.low = int(math.ceil(mx * 0.95))
    # pre-fill (unscheduled) so that the interesting part of the run is short
    vid = 1000
    if self.cfg.get('zero_dups'):
      # history: five rounds of idle counters (value 0, every datapoint sent twice) stored and written out completely
      for rnd in range(5):
        for m, n in self.cfg.get('prefill', ()):
          for t in range(n):
            self.cache.store(m, (float(50 + t), 0.0))
            self.cache.store(m, (float(50 + t), 0.0))
        k = 0
        while len(self.cache) and k < 50:
          self.cache.drain_metric()
          k += 1
    for m, n in self.cfg.get('prefill', ()):
      for t in range(n):
        vid += 1
        if self.cfg.get('zero_dups'):
          # idle counters: the value is 0, and every datapoint is sent twice (a duplicate does not grow the cache)
          self.cache.store(m, (float(100 + t), 0.0))
          self.cache.store(m, (float(100 + t), 0.0))
        else:
          self.cache.store(m, (float(100 + t), float(vid)))
    self.sched.on_point = self.observe
    self.observe('main', 'init', force=True)

  def teardown(self):
    fm = self.fm
    for n in fm.names:
      setattr(fm.events, n, fm.base_events[n])
      fm.base_events[n].handlers[:] = list(fm.base_handlers[n])
    fm.state.connectedMetricReceiverProtocols.clear()
    fm.cache._Cache = None

  def snapshot(self):
    st = self.fm.state
    nr = self.cfg.get('nr', 2)
    conn = [c in self.recv for c in range(1, nr + 1)]
    prod = [(self.recv[c][1].producerState == 'producing') if c in self.recv else True for c in range(1, nr + 1)]
    return dict(tooFull=bool(st.cacheTooFull), paused=bool(st.metricReceiversPaused), size=int(self.cache.size),
                conn=conn, producing=prod)

  def observe(self, thread=None, kind=None, force=False):
    o = self.snapshot()
    if o != self.last or force:
      self.last = o
      e = dict(k='obs', t=thread)
      e.update(o)
      self.ev.append(e)

  def s_body(self):
    fm = self.fm
    for op in self.s_ops:
      self.ev.append(dict(k='op', ph='start', t='S', op=op[0]))
      if op[0] == 'store':
        _, m, ts, vid = op
        prod = [c for c in sorted(self.recv) if self.recv[c][1].producerState == 'producing']
        if prod:
          self.recv[prod[0]][0].dataReceived(('%s %d %d\n' % (m, vid, ts)).encode('ascii'))
        else:
          fm.events.metricReceived(m, (float(ts), float(vid)))
      elif op[0] == 'connect':
        c = op[1]
        if c not in self.recv:
          r = fm.protocols.MetricLineReceiver()
          tr = StringTransport()
          self.recv[c] = (r, tr)
          r.makeConnection(tr)
          self.ev.append(dict(k='conn', c=c, producing=(tr.producerState == 'producing'),
                              paused=bool(fm.state.metricReceiversPaused)))
      elif op[0] == 'disconnect':
        c = op[1]
        if c in self.recv:
          r, tr = self.recv[c]
          r.connectionLost(Failure(ConnectionDone()))
          del self.recv[c]
      self.observe('S', 'opend')
      self.ev.append(dict(k='op', ph='end', t='S', op=op[0]))
      self.sched.point('op')

  def w_body(self):
    for op in self.w_ops:
      self.ev.append(dict(k='op', ph='start', t='W', op='drain'))
      self.cache.drain_metric()
      self.observe('W', 'opend')
      self.ev.append(dict(k='op', ph='end', t='W', op='drain'))
      self.sched.point('op')

  def execute(self, chooser):
    self.build()
    try:
      self.sched.spawn('S', self.s_body)
      self.sched.spawn('W', self.w_body)
      log = self.sched.run(chooser)
      for t in self.sched.threads:
        if t.exc is not None:
          raise Machinery('workload thread %s died: %r' % (t.name, t.exc))
      # quiescence: the writer drains everything that is cached
      n = 0
      while len(self.cache) and n < 50:
        self.cache.drain_metric()
        n += 1
      self.observe('main', 'end', force=True)
      e = dict(k='end', low=self.low)
      e.update(self.snapshot())
      # at quiescence the property speaks about what the cache HOLDS (its own counter is C02's business)
      e['size'] = sum(len(v) for v in dict.values(self.cache))
      self.ev.append(e)
    finally:
      self.teardown()
    return dict(ev=self.ev, low=self.low), log


def gen_workload(rng, nr):
  """MAX_CACHE_SIZE = 20 (so that 1.05*MAX leaves room above MAX), pre-filled to just below it."""
  mx = 20
  pre = rng.choice([[('m1', 10), ('m2', 6), ('m3', 3)], [('m1', 12), ('m2', 7)], [('m1', 9), ('m2', 9)],
                    [('m1', 17), ('m2', 2)]])
  ops = [('connect', c) for c in range(1, nr + 1) if rng.random() < 0.8]
  vid = 0
  for i in range(rng.randint(2, 5)):
    vid += 1
    ops.append(('store', 'm%d' % rng.randint(3, 6), rng.randint(1, 3), vid))
  for c in range(1, nr + 1):
    if rng.random() < 0.5:
      ops.insert(rng.randint(1, len(ops)), ('disconnect', c))
    if rng.random() < 0.3:
      ops.insert(rng.randint(1, len(ops)), ('connect', c))
  return mx, pre, ops, [('drain',)] * rng.randint(1, 3)


def judge(ctx, traces, what):
  cfg = tlc.cfg_text(spec='Spec', constraints=['Report'])
  out = {}
  CH = 500
  for k in range(0, len(traces), CH):
    chunk = traces[k:k + CH]
    res, done, bad = tlc.validate_batch('FlowCache_Trace', cfg, ctx.scratch, chunk, workers=4)
    tlc.check_ok(res, what)
    ctx.states += res.distinct
    ctx.transitions += res.generated
    got = {}
    for v in tlc.extract_prints(res.out, 'DONE'):
      got[v[1]] = set(v[2])
    if len(got) != len(chunk):
      raise Machinery('%s: %d of %d traces judged\n%s' % (what, len(got), len(chunk), res.out[-2000:]))
    for i in range(1, len(chunk) + 1):
      out[k + i - 1] = got[i]
  return out
