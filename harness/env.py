"""Import carbon from /repo/lib (current working tree) with the environment shims of
DESIGN.md 2.3, a scratch CONF_DIR / LOCAL_DATA_DIR, and virtual time helpers."""
import importlib
import os
import sys

sys.dont_write_bytecode = True

REPO = os.environ.get('VERIF_REPO', '/repo')
VERIF = os.path.dirname(os.path.dirname(os.path.abspath(__file__)))
GUARD = 'CARBON_VERIF'

_ready = False


def bootstrap(scratch, schemas=None, aggregation=None):
  """Prepare sys.path / sys.modules and carbon.conf.settings.  Must run before
  carbon.storage / carbon.writer / carbon.client are imported."""
  global _ready
  os.environ[GUARD] = '1'
  lib = os.path.join(REPO, 'lib')
  if lib not in sys.path:
    sys.path.insert(0, lib)
  stubs = os.path.join(VERIF, 'stubs')
  if stubs not in sys.path:
    sys.path.append(stubs)
  # txamqp here is python-2 source: SyntaxError, which service.py does not tolerate
  sys.modules.setdefault('carbon.amqp_listener', None)
  import carbon
  assert os.path.realpath(carbon.__file__).startswith(os.path.realpath(lib)), carbon.__file__
  from carbon.conf import settings
  conf = os.path.join(scratch, 'conf')
  data = os.path.join(scratch, 'data')
  os.makedirs(conf, exist_ok=True)
  os.makedirs(data, exist_ok=True)
  settings['CONF_DIR'] = conf
  settings['LOCAL_DATA_DIR'] = data
  settings['STORAGE_DIR'] = scratch
  settings['LOG_DIR'] = os.path.join(scratch, 'log')
  settings['program'] = 'carbon-cache'
  settings['instance'] = 'a'
  settings['LOG_UPDATES'] = False
  settings['LOG_CREATES'] = False
  settings['LOG_CACHE_HITS'] = False
  settings['LOG_CACHE_QUEUE_SORTS'] = False
  settings['LOG_LISTENER_CONN_SUCCESS'] = False
  settings['LOG_AGGREGATOR_MISSES'] = False
  settings['ENABLE_TAGS'] = False
  write_conf(conf, 'storage-schemas.conf', schemas or '[all]\npattern = .*\nretentions = 60:1440\n')
  write_conf(conf, 'storage-aggregation.conf', aggregation or '')
  _ready = True
  return settings


def write_conf(conf_dir, name, text):
  with open(os.path.join(conf_dir, name), 'w') as fh:
    fh.write(text)


def fresh(*names):
  """(Re)import carbon modules so module-level values computed from settings are
  recomputed by the code under test."""
  out = []
  for n in names:
    if n in sys.modules and sys.modules[n] is not None:
      out.append(importlib.reload(sys.modules[n]))
    else:
      out.append(importlib.import_module(n))
  return out[0] if len(out) == 1 else out


class ErrorLog(object):
  """Captures twisted log events (log.err / log.msg) so that 'reported as an error'
  is observable."""
  def __init__(self):
    self.errors = []
    self.msgs = []

  def __call__(self, event):
    if event.get('isError'):
      self.errors.append(event)
    else:
      self.msgs.append(event)

  def install(self):
    from twisted.python import log as tlog
    tlog.addObserver(self)
    return self

  def remove(self):
    from twisted.python import log as tlog
    try:
      tlog.removeObserver(self)
    except ValueError:
      pass

  def flush(self):
    e = self.errors
    self.errors = []
    return e


class VClock(object):
  """Virtual wall clock: time() and sleep().  sleep rounds up to `tick` when given."""
  def __init__(self, start=0.0, tick=None, on_sleep=None):
    self.now = start
    self.tick = tick
    self.sleeps = []
    self.on_sleep = on_sleep

  def time(self):
    return self.now

  def sleep(self, dt):
    import math
    if self.tick:
      n = math.ceil(dt / self.tick - 1e-6)
      dt2 = n * self.tick
    else:
      dt2 = dt
    self.sleeps.append((dt, dt2))
    if self.on_sleep:
      self.on_sleep(dt2)
    else:
      self.now += dt2

  def advance(self, dt):
    self.now += dt
