"""Minimal stand-in for the `whisper` library (not installed here) so that carbon.database defines
WhisperDatabase.  Only the plugin glue of carbon is exercised; nothing of this stub is a claim
about whisper itself."""
import os

aggregationMethods = ['average', 'sum', 'last', 'max', 'min', 'avg_zero', 'absmax', 'absmin']
CAN_FALLOCATE = False
CAN_LOCK = False
CAN_FADVISE = False
AUTOFLUSH = False
LOCK = False
FADVISE_RANDOM = False
created = []
updates = []


class InvalidConfiguration(Exception):
  pass


def create(path, archiveList, xFilesFactor=None, aggregationMethod=None, sparse=False, useFallocate=False):
  created.append((path, archiveList, xFilesFactor, aggregationMethod))
  with open(path, 'wb') as fh:
    fh.write(b'stub')


def update_many(path, points):
  updates.append((path, list(points)))


def validateArchiveList(archiveList):
  if not archiveList:
    raise InvalidConfiguration('You must specify at least one archive configuration!')


def info(path):
  return {'aggregationMethod': 'average'}


def setAggregationMethod(path, method):
  return 'average'
