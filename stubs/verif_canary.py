"""Harmless targets for the unpickler sweep (C13): being looked up or called is recorded, nothing else happens."""
CALLS = []


def fire(*a, **k):
  CALLS.append(('fire', a, k))
  return 'fired'


class Boom(object):
  def __init__(self, *a, **k):
    CALLS.append(('Boom', a, k))

  def __setstate__(self, st):
    CALLS.append(('setstate', st))
