"""Importable but never imported by the harness (C13): if this module shows up in sys.modules while a
frame is being unpickled, the unpickler imported a module named in the pickle.  Nothing else happens."""
import verif_canary
verif_canary.CALLS.append(('import:verif_cold', (), {}))


def fire(*a, **k):
  verif_canary.CALLS.append(('cold.fire', a, k))
  return 'fired'
