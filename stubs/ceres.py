"""Minimal stand-in for the `ceres` library (not installed here) so that carbon.database defines
CeresDatabase.  Only carbon's own CeresDatabase.encode (a pure function) is exercised."""
import os

CAN_LOCK = False
LOCK_WRITES = False
MAX_SLICE_GAP = 80


def setDefaultNodeCachingBehavior(x):
  pass


def setDefaultSliceCachingBehavior(x):
  pass


class CeresTree(object):
  def __init__(self, root):
    self.root = root

  def hasNode(self, nodePath):
    return False

  def getFilesystemPath(self, nodePath):
    return os.path.join(self.root, nodePath.replace('.', os.sep))
