"""A second harmless target (C13) whose module and attribute names avoid the letter that spells the GLOBAL opcode."""
import verif_canary


def fire(*a, **k):
  verif_canary.CALLS.append(('vkanary.fire', a, k))
  return 'fired'


class Boom(object):
  def __init__(self, *a, **k):
    verif_canary.CALLS.append(('vkanary.Boom', a, k))
