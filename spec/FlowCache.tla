----------------------------- MODULE FlowCache -----------------------------
(* Back-pressure between the cache and the receivers in carbon-cache (C09).          *)
(*   reactor thread: MetricCache.store() - under the cache lock it tests fullness    *)
(*     and fires events.cacheFull(): handlers [cacheTooFull := True,                 *)
(*     pauseReceivingMetrics -> [metricReceiversPaused := True, r.pauseReceiving()..]]*)
(*     receivers connect / disconnect on the same thread (handler lists change)      *)
(*   writer thread: MetricCache.pop() - under the lock it removes a metric, then     *)
(*     OUTSIDE the lock _check_available_space() reads cacheTooFull and size and      *)
(*     fires events.cacheSpaceAvailable(): handlers [cacheTooFull := False,           *)
(*     resumeReceivingMetrics -> [metricReceiversPaused := False, r.resumeReceiving()]]*)
(* Event.__call__ iterates `for handler in self.handlers` - a list iterator is an     *)
(* index into the live list, so each handler call is a separate step and removals by  *)
(* the other thread shift what the index points at.                                   *)
EXTENDS Integers, Sequences, FiniteSets

CONSTANTS MaxC,        \* MAX_CACHE_SIZE (is_nearly_full: size >= MaxC)
          LowC,        \* size < LowC  <=> size < 0.95 * MAX_CACHE_SIZE
          HardC,       \* a new datapoint is refused when size + 1 > HardC
          NR,          \* receiver connections
          MaxStores, MaxConn,
          CopyHandlers \* TRUE: Event.__call__ iterates over a copy of the handler list

VARIABLES size, tooFull, paused, conn, producing, hR, hP,
          pcS, iS, pcW, iW, lock, snapW,
          nst, nconn

vars == <<size, tooFull, paused, conn, producing, hR, hP, pcS, iS, pcW, iW, lock, snapW, nst, nconn>>
Recv == 1..NR
Without(s, x) == SelectSeq(s, LAMBDA y : y # x)

Init == /\ size = 0 /\ tooFull = FALSE /\ paused = FALSE
        /\ conn = [c \in Recv |-> FALSE] /\ producing = [c \in Recv |-> TRUE]
        /\ hR = <<>> /\ hP = <<>>               \* receivers' resume / pause handlers, in registration order
        /\ pcS = "idle" /\ iS = 0 /\ pcW = "idle" /\ iW = 0 /\ lock = "free" /\ snapW = <<>>
        /\ nst = 0 /\ nconn = 0

\* ---- reactor thread -------------------------------------------------------------
\* connectionMade: pause itself if receivers are paused, then register the handlers
Connect(c) ==
  /\ pcS = "idle" /\ ~conn[c] /\ nconn < MaxConn
  /\ nconn' = nconn + 1
  /\ conn' = [conn EXCEPT ![c] = TRUE]
  /\ producing' = [producing EXCEPT ![c] = ~paused]
  /\ hP' = Append(hP, c) /\ hR' = Append(hR, c)
  /\ UNCHANGED <<size, tooFull, paused, pcS, iS, pcW, iW, lock, snapW, nst>>

Disconnect(c) ==
  /\ pcS = "idle" /\ conn[c] /\ nconn < MaxConn
  /\ nconn' = nconn + 1
  /\ conn' = [conn EXCEPT ![c] = FALSE]
  /\ producing' = [producing EXCEPT ![c] = TRUE]
  /\ hP' = Without(hP, c) /\ hR' = Without(hR, c)
  /\ UNCHANGED <<size, tooFull, paused, pcS, iS, pcW, iW, lock, snapW, nst>>

\* store(): take the lock, decide
S_Begin ==
  /\ pcS = "idle" /\ lock = "free" /\ nst < MaxStores
  /\ nst' = nst + 1
  /\ lock' = "S"
  /\ IF size + 1 > HardC THEN pcS' = "end" /\ UNCHANGED size          \* refused (overflow)
     ELSE IF size >= MaxC THEN pcS' = "full1" /\ UNCHANGED size       \* events.cacheFull() first
     ELSE pcS' = "end" /\ size' = size + 1
  /\ UNCHANGED <<tooFull, paused, conn, producing, hR, hP, iS, pcW, iW, snapW, nconn>>

S_Full1 == /\ pcS = "full1" /\ tooFull' = TRUE /\ pcS' = "full2"
           /\ UNCHANGED <<size, paused, conn, producing, hR, hP, iS, pcW, iW, lock, snapW, nst, nconn>>
S_Full2 == /\ pcS = "full2" /\ paused' = TRUE /\ pcS' = "fullr" /\ iS' = 1
           /\ UNCHANGED <<size, tooFull, conn, producing, hR, hP, pcW, iW, lock, snapW, nst, nconn>>
S_FullR == /\ pcS = "fullr"
           /\ IF iS <= Len(hP)
                THEN /\ producing' = [producing EXCEPT ![hP[iS]] = FALSE] /\ iS' = iS + 1
                     /\ UNCHANGED <<pcS, size>>
                ELSE /\ pcS' = "end" /\ size' = size + 1 /\ UNCHANGED <<producing, iS>>
           /\ UNCHANGED <<tooFull, paused, conn, hR, hP, pcW, iW, lock, snapW, nst, nconn>>
S_End == /\ pcS = "end" /\ pcS' = "idle" /\ lock' = "free"
         /\ UNCHANGED <<size, tooFull, paused, conn, producing, hR, hP, iS, pcW, iW, snapW, nst, nconn>>

\* ---- writer thread --------------------------------------------------------------
W_Pop == /\ pcW = "idle" /\ lock = "free" /\ size > 0
         /\ \E n \in 1..size : size' = size - n
         /\ pcW' = "check"
         /\ UNCHANGED <<tooFull, paused, conn, producing, hR, hP, pcS, iS, iW, lock, snapW, nst, nconn>>

W_Check == /\ pcW = "check"
           /\ pcW' = IF tooFull /\ size < LowC THEN "sp1" ELSE "idle"
           /\ UNCHANGED <<size, tooFull, paused, conn, producing, hR, hP, pcS, iS, iW, lock, snapW, nst, nconn>>
W_Sp1 == /\ pcW = "sp1" /\ tooFull' = FALSE /\ pcW' = "sp2"
         /\ UNCHANGED <<size, paused, conn, producing, hR, hP, pcS, iS, iW, lock, snapW, nst, nconn>>
W_Sp2 == /\ pcW = "sp2" /\ paused' = FALSE /\ pcW' = "spr" /\ iW' = 1 /\ snapW' = hR
         /\ UNCHANGED <<size, tooFull, conn, producing, hR, hP, pcS, iS, lock, nst, nconn>>
W_SpR == /\ pcW = "spr"
         /\ LET lst == IF CopyHandlers THEN snapW ELSE hR IN
            IF iW <= Len(lst)
              THEN /\ producing' = [producing EXCEPT ![lst[iW]] = TRUE] /\ iW' = iW + 1 /\ UNCHANGED pcW
              ELSE /\ pcW' = "idle" /\ UNCHANGED <<producing, iW>>
         /\ UNCHANGED <<size, tooFull, paused, conn, hR, hP, pcS, iS, lock, snapW, nst, nconn>>

Next == \/ \E c \in Recv : Connect(c) \/ Disconnect(c)
        \/ S_Begin \/ S_Full1 \/ S_Full2 \/ S_FullR \/ S_End
        \/ W_Pop \/ W_Check \/ W_Sp1 \/ W_Sp2 \/ W_SpR
Spec == Init /\ [][Next]_vars

-----------------------------------------------------------------------------
Quiescent == pcS = "idle" /\ pcW = "idle" /\ size = 0
\* C09 (cache side): nobody is left paused once everything has drained
NoStuck == Quiescent => (~paused /\ \A c \in Recv : conn[c] => producing[c])
\* the same, tolerating what the listed finding explains: a receiver whose resume handler was
\* skipped because the handler list shrank under the writer's iteration
Bound == size <= HardC
TypeOK == size \in 0..(HardC + 1) /\ lock \in {"free", "S"}
=============================================================================
