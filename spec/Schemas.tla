------------------------------- MODULE Schemas -------------------------------
(* loadStorageSchemas / loadAggregationSchemas / parseRetentionDef (carbon.storage,   *)
(* carbon.util) and the writer's two first-match loops (C19).                          *)
(* A configuration file is an ordered sequence of sections.  A storage section has     *)
(* haspat / hasret flags, a pattern (literal grammar: sub / prefix / suffix / exact)   *)
(* and retentions [pn, pu, qn, qu]: precision pn with unit pu, points qn with unit qu  *)
(* (unit 0 = none, 1..6 = s m h d w y).  Mode "model": TLC enumerates small section     *)
(* lists and match vectors; mode "trace": judges recorded create() calls.               *)
EXTENDS Integers, Sequences, FiniteSets, Json, IOUtils, TLC, TLCExt

CONSTANTS Mode, MaxSections

VARIABLES secs, tid
vars == <<secs, tid>>

Mult(u) == CASE u = 0 -> 1 [] u = 1 -> 1 [] u = 2 -> 60 [] u = 3 -> 3600 [] u = 4 -> 86400
             [] u = 5 -> 604800 [] u = 6 -> 31536000
\* parseRetentionDef + Archive: <<secondsPerPoint, points>>
Retention(r) == LET prec == r[1] * Mult(r[2])
                IN <<prec, IF r[4] = 0 THEN r[3] ELSE (r[3] * Mult(r[4])) \div prec>>

Dot == 5        \* the code of '.' in the harness alphabet 'abcd.x'
EqAny(lit, seg) == Len(lit) = Len(seg) /\ \A i \in 1..Len(lit) : lit[i] = Dot \/ lit[i] = seg[i]
Occurs(lit, name) == \E i \in 0..(Len(name) - Len(lit)) : SubSeq(name, i + 1, i + Len(lit)) = lit
PatMatches(p, name) ==
  CASE p.k = "sub" -> Occurs(p.lit, name)
    [] p.k = "prefix" -> Len(name) >= Len(p.lit) /\ SubSeq(name, 1, Len(p.lit)) = p.lit
    [] p.k = "suffix" -> Len(name) >= Len(p.lit) /\ SubSeq(name, Len(name) - Len(p.lit) + 1, Len(name)) = p.lit
    [] p.k = "exact" -> name = p.lit
    \* '^lit?' / '^lit*': the last character of the literal is optional / repeatable - the name starts with the rest
    [] p.k \in {"prefixopt", "prefixstar"} -> Len(name) >= Len(p.lit) - 1 /\ SubSeq(name, 1, Len(p.lit) - 1) = SubSeq(p.lit, 1, Len(p.lit) - 1)
    [] p.k \in {"anystart", "anyopt", "anystar", "anylook"} -> TRUE     \* patterns every name matches, possibly with an empty match
    \* '^a.b' / 'a.b' with the dot NOT escaped: a regular-expression dot, any one character
    [] p.k = "prefixany" -> Len(name) >= Len(p.lit) /\ EqAny(p.lit, SubSeq(name, 1, Len(p.lit)))
    [] p.k = "subany" -> \E i \in 0..(Len(name) - Len(p.lit)) : EqAny(p.lit, SubSeq(name, i + 1, i + Len(p.lit)))
    [] OTHER -> FALSE

\* index of the first section that is usable and matches, 0 if none (the default applies)
FirstIdx(usable, matches, n) ==
  IF \E i \in 1..n : usable[i] /\ matches[i]
    THEN CHOOSE i \in 1..n : usable[i] /\ matches[i] /\ \A j \in 1..(i - 1) : ~(usable[j] /\ matches[j])
    ELSE 0

DefaultRetentions == <<<<60, 10080>>>>

-----------------------------------------------------------------------------
\* model mode: sections are <<usable, matches>> pairs; unusable sections are transparent
Small == UNION {[1..n -> BOOLEAN \X BOOLEAN] : n \in 0..MaxSections}
Cases == IF Mode = "trace" THEN JsonDeserialize(IOEnv.TRACE_FILE) ELSE <<>>
Init == IF Mode = "model" THEN secs \in Small /\ tid = 0 ELSE tid \in 1..Len(Cases) /\ secs = <<>>
Next == UNCHANGED vars
Spec == Init /\ [][Next]_vars

Usable(s) == [i \in 1..Len(s) |-> s[i][1]]
Matches(s) == [i \in 1..Len(s) |-> s[i][2]]
Kept(s) == SelectSeq(s, LAMBDA x : x[1])
Transparent == Mode = "model" =>
  LET a == FirstIdx(Usable(secs), Matches(secs), Len(secs))
      k == Kept(secs)
      b == FirstIdx(Usable(k), Matches(k), Len(k))
  IN (a = 0 <=> b = 0) /\ (a # 0 => Cardinality({i \in 1..a : secs[i][1]}) = b)
FirstWins == Mode = "model" =>
  \A i \in 1..Len(secs) : (secs[i][1] /\ secs[i][2]) => FirstIdx(Usable(secs), Matches(secs), Len(secs)) \in 1..i

-----------------------------------------------------------------------------
CaseFlags ==
  LET c == Cases[tid]
      st == c.storage   ag == c.aggregation
      su == [i \in 1..Len(st) |-> st[i].haspat = 1 /\ st[i].hasret = 1]
      sm == [i \in 1..Len(st) |-> st[i].haspat = 1 /\ PatMatches(st[i].pat, c.name)]
      si == FirstIdx(su, sm, Len(st))
      expRet == IF si = 0 THEN DefaultRetentions
                ELSE [j \in 1..Len(st[si].rets) |-> Retention(st[si].rets[j])]
      au == [i \in 1..Len(ag) |-> ag[i].haspat = 1]
      am == [i \in 1..Len(ag) |-> ag[i].haspat = 1 /\ PatMatches(ag[i].pat, c.name)]
      ai == FirstIdx(au, am, Len(ag))
      expX == IF ai = 0 THEN -1 ELSE ag[ai].xff
      expM == IF ai = 0 THEN 0 ELSE ag[ai].method
      obsRet == [j \in 1..Len(c.obs.rets) |-> <<c.obs.rets[j][1], c.obs.rets[j][2]>>]
  IN (IF c.obs.created = 0 THEN {"not-created"} ELSE {})
     \cup (IF c.obs.created = 1 /\ obsRet # expRet THEN {"retentions"} ELSE {})
     \cup (IF c.obs.created = 1 /\ c.obs.xff # expX THEN {"xFilesFactor"} ELSE {})
     \cup (IF c.obs.created = 1 /\ c.obs.method # expM THEN {"aggregationMethod"} ELSE {})
Report == IF Mode = "trace"
            THEN /\ \A f \in CaseFlags : PrintT(<<"F", tid, f>>)
                 /\ PrintT(<<"DONE", tid>>)
            ELSE TRUE
=============================================================================
