----------------------------- MODULE Aggregator -----------------------------
(* carbon.aggregator.buffers: MetricBuffer / IntervalBuffer / BufferManager with the *)
(* LoopingCall that runs compute_value(), on a virtual clock of whole seconds.        *)
(* A value is the unique id of the datapoint it came from, so an emission names       *)
(* exactly WHICH values were aggregated; the numeric function is applied outside.     *)
(* buf[s] is the series' dict of interval buffers in insertion order (emission order  *)
(* follows it).  The state is one record `a` so that the transformers can be reused   *)
(* by Aggregator_Trace.                                                               *)
EXTENDS Integers, Sequences, FiniteSets, SequencesExt

CONSTANTS Series,       \* aggregate series (small integers)
          F,            \* rule frequency (seconds)
          M,            \* MAX_AGGREGATION_INTERVALS
          WB,           \* WRITE_BACK_FREQUENCY (0 = not set)
          MaxTs, MaxNow, MaxInputs

VARIABLES a, nin, emitted, recvAll, sinceEmit, expired, viol
vars == <<a, nin, emitted, recvAll, sinceEmit, expired, viol>>

Min2(x, y) == IF x <= y THEN x ELSE y
CF == IF WB > 0 THEN Min2(WB, F) ELSE F          \* period of the compute task
Interval(ts) == ts - (ts % F)
Idx(recs, i) == IF \E k \in 1..Len(recs) : recs[k].i = i
                  THEN CHOOSE k \in 1..Len(recs) : recs[k].i = i ELSE 0

InitA == [buf |-> [s \in Series |-> <<>>], conf |-> [s \in Series |-> FALSE],
          next |-> [s \in Series |-> 0], now |-> 0]

\* AggregationProcessor.process -> get_buffer / configure_aggregation / MetricBuffer.input
InputF(st, s, ts, id) ==
  LET s1 == IF st.conf[s] THEN st
            ELSE [st EXCEPT !.conf[s] = TRUE, !.next[s] = st.now + CF]
      i == Interval(ts)
      k == Idx(s1.buf[s], i)
  IN IF k = 0 THEN [s1 EXCEPT !.buf[s] = Append(@, [i |-> i, vals |-> <<id>>, inact |-> -1])]
     ELSE [s1 EXCEPT !.buf[s][k].vals = Append(@, id), !.buf[s][k].inact = -1]

\* MetricBuffer.compute_value(): <<state', emissions>>
FlushF(st, s) ==
  LET cur == st.now - (st.now % F)
      thr == cur - M * F
      recs == st.buf[s]
      emis == SelectSeq(recs, LAMBDA r : r.inact = -1)
      pass1 == SelectSeq([k \in 1..Len(recs) |->
                           IF recs[k].inact = -1 THEN [recs[k] EXCEPT !.inact = cur] ELSE recs[k]],
                         LAMBDA r : ~(r.inact # cur /\ r.inact < thr) \/ r.inact = cur)
      \* (an interval marked inactive in this very call is never deleted by the age test)
      kept == IF Len(pass1) > M + 2
                THEN LET ivs == {pass1[k].i : k \in 1..Len(pass1)}
                         drop == {i \in ivs : Cardinality({j \in ivs : j > i}) >= M + 2}
                     IN SelectSeq(pass1, LAMBDA r : r.i \notin drop)
                ELSE pass1
      s1 == [st EXCEPT !.buf[s] = kept]
      s2 == IF kept = <<>> THEN [s1 EXCEPT !.conf[s] = FALSE] ELSE [s1 EXCEPT !.next[s] = st.next[s] + CF]
  IN <<s2, [k \in 1..Len(emis) |-> <<s, emis[k].i, emis[k].vals>>]>>

Due(st) == {s \in Series : st.conf[s] /\ st.next[s] <= st.now}

\* clock.advance(1): every compute task that is due runs (earliest scheduled first)
RECURSIVE RunDue(_, _)
RunDue(st, acc) ==
  IF Due(st) = {} THEN <<st, acc>>
  ELSE LET s == CHOOSE x \in Due(st) : \A y \in Due(st) : st.next[x] < st.next[y] \/ (st.next[x] = st.next[y] /\ x <= y)
           r == FlushF(st, s)
       IN RunDue(r[1], acc \o r[2])

TickF(st) == RunDue([st EXCEPT !.now = @ + 1], <<>>)

-----------------------------------------------------------------------------
Init == /\ a = InitA /\ nin = 0 /\ emitted = <<>>
        /\ recvAll = [s \in Series |-> <<>>]        \* sequence of <<interval, id>> ever received
        /\ sinceEmit = [s \in Series |-> <<>>]      \* <<interval, id>> received since that interval was last emitted
        /\ expired = {}                             \* <<s, interval>> whose buffer was dropped at some point
        /\ viol = {}

Input(s, ts) ==
  /\ nin < MaxInputs
  /\ nin' = nin + 1
  /\ a' = InputF(a, s, ts, nin + 1)
  /\ recvAll' = [recvAll EXCEPT ![s] = Append(@, <<Interval(ts), nin + 1>>)]
  /\ sinceEmit' = [sinceEmit EXCEPT ![s] = Append(@, <<Interval(ts), nin + 1>>)]
  /\ viol' = viol \cup (IF Interval(ts) % F = 0 /\ Interval(ts) <= ts /\ ts < Interval(ts) + F THEN {} ELSE {"aligned"})
  /\ UNCHANGED <<emitted, expired>>

Ids(sq, i) == {sq[k][2] : k \in {j \in 1..Len(sq) : sq[j][1] = i}}

EmitViol(e, se, ra, ex) ==
  LET s == e[1]  i == e[2]  vs == ToSet(e[3]) IN
     (IF ~(Ids(se[s], i) \subseteq vs) THEN {"misses-new-values"} ELSE {})
\cup (IF <<s, i>> \notin ex /\ vs # Ids(ra[s], i) THEN {"not-all-values"} ELSE {})
\cup (IF Ids(se[s], i) = {} THEN {"re-emitted-without-new-data"} ELSE {})
\cup (IF Len(e[3]) # Cardinality(vs) THEN {"value-counted-twice"} ELSE {})
\cup (IF ~(vs \subseteq Ids(ra[s], i)) THEN {"foreign-value"} ELSE {})

Tick ==
  /\ a.now < MaxNow
  /\ LET r == TickF(a)
         em == r[2]
         \* (the intervals are read off the buffers themselves: timestamps from before the epoch give negative intervals)
         gone == UNION {{<<s, a.buf[s][k].i>> : k \in {j \in 1..Len(a.buf[s]) : Idx(r[1].buf[s], a.buf[s][j].i) = 0}} : s \in Series}
     IN /\ a' = r[1]
        /\ emitted' = emitted \o em
        /\ viol' = viol \cup UNION {EmitViol(em[k], sinceEmit, recvAll, expired) : k \in 1..Len(em)}
                        \cup (IF \E s \in Due([a EXCEPT !.now = @ + 1]) : Len(r[1].buf[s]) > M + 2
                                THEN {"more-than-M+2-after-flush"} ELSE {})
                        \cup (IF \E s \in Series : r[1].buf[s] = <<>> /\ r[1].conf[s] THEN {"idle-series-not-released"} ELSE {})
        /\ sinceEmit' = [s \in Series |-> SelectSeq(sinceEmit[s],
                            LAMBDA x : ~\E k \in 1..Len(em) : em[k][1] = s /\ em[k][2] = x[1])]
        /\ expired' = expired \cup gone
  /\ UNCHANGED <<nin, recvAll>>

Next == \/ \E s \in Series, ts \in 0..MaxTs : Input(s, ts)
        \/ Tick
Spec == Init /\ [][Next]_vars

-----------------------------------------------------------------------------
(* C08 *)
NoViolation == viol = {}
\* buffered intervals per series never exceed MAX+2 right after that series' flush (checked in Tick);
\* as a state invariant the cap holds whenever no input arrived since the last flush of the series
TypeOK == /\ a.now \in 0..MaxNow /\ \A s \in Series : a.conf[s] \in BOOLEAN
          /\ \A s \in Series : (a.buf[s] # <<>>) => a.conf[s]
=============================================================================
