------------------------------ MODULE Admission ------------------------------
(* MetricReceiver.metricReceived (blacklist, whitelist, NaN, timestamp -1, minimum     *)
(* timestamp resolution) and RegexList (list files) as a decision table (C12).         *)
(* Names and literals are sequences of character codes; a list file is a sequence of   *)
(* lines [k, lits]: "sub" (literal searched anywhere), "prefix" (^lit), "suffix"       *)
(* (lit$), "exact" (^lit$), "alt" (a|b|..), "comment", "blank", "invalid" (not a       *)
(* regular expression: ignored).  Timestamps travel in half-units (2*ts) so that        *)
(* fractional ones (x.5) stay integers.                                                 *)
EXTENDS Integers, Sequences, FiniteSets, Json, IOUtils, TLC, TLCExt

VARIABLES tid
vars == <<tid>>

Cases == JsonDeserialize(IOEnv.TRACE_FILE)
C == Cases[tid]

Occurs(lit, name) == \E i \in 0..(Len(name) - Len(lit)) : SubSeq(name, i + 1, i + Len(lit)) = lit
LineMatches(p, name) ==
  CASE p.k = "sub" -> Occurs(p.lits[1], name)
    [] p.k = "prefix" -> Len(name) >= Len(p.lits[1]) /\ SubSeq(name, 1, Len(p.lits[1])) = p.lits[1]
    [] p.k = "suffix" -> Len(name) >= Len(p.lits[1]) /\ SubSeq(name, Len(name) - Len(p.lits[1]) + 1, Len(name)) = p.lits[1]
    [] p.k = "exact" -> name = p.lits[1]
    [] p.k = "alt" -> \E j \in 1..Len(p.lits) : Occurs(p.lits[j], name)
    [] OTHER -> FALSE
Valid(p) == p.k \in {"sub", "prefix", "suffix", "exact", "alt"}
NonEmpty(lst) == \E i \in 1..Len(lst) : Valid(lst[i])
InList(lst, name) == \E i \in 1..Len(lst) : Valid(lst[i]) /\ LineMatches(lst[i], name)

\* the decision table
Blacklisted == InList(C.bl, C.name)
WhiteRejected == ~Blacklisted /\ NonEmpty(C.wl) /\ ~InList(C.wl, C.name)
Admit == ~Blacklisted /\ ~WhiteRejected /\ C.nan = 0

Trunc2(t2) == IF t2 >= 0 THEN t2 \div 2 ELSE -((-t2) \div 2)        \* int(ts) for ts = t2/2
TsOut2 == LET t2 == IF C.ts2 = -2 THEN C.now2 ELSE C.ts2               \* a timestamp of -1 means "now"
          IN IF C.res = 0 THEN t2 ELSE 2 * ((Trunc2(t2) \div C.res) * C.res)

Flags ==
     \* (a datapoint with a NaN / infinite timestamp is malformed input - C11 -: only the list counters are judged)
     (IF C.tsbad = 0 /\ (C.obs.admitted = 1) # Admit THEN {IF Admit THEN "filtered-wrongly" ELSE "admitted-wrongly"} ELSE {})
\cup (IF C.tsbad = 1 /\ C.obs.admitted = 1 /\ ~Admit THEN {"admitted-wrongly"} ELSE {})
\cup (IF C.tsbad = 0 /\ C.obs.admitted = 1 /\ Admit /\ C.obs.ts2 # TsOut2 THEN {"timestamp"} ELSE {})
\cup (IF C.obs.admitted = 1 /\ (C.obs.namesame = 0 \/ C.obs.valuesame = 0) THEN {"altered"} ELSE {})
\cup (IF C.obs.blcount # (IF Blacklisted THEN 1 ELSE 0) THEN {"counter:blacklistMatches"} ELSE {})
\cup (IF C.obs.wlcount # (IF WhiteRejected THEN 1 ELSE 0) THEN {"counter:whitelistRejects"} ELSE {})

Init == tid \in 1..Len(Cases)
Next == UNCHANGED tid
Spec == Init /\ [][Next]_vars
Report == /\ \A f \in Flags : PrintT(<<"F", tid, f>>)
          /\ PrintT(<<"DONE", tid>>)
=============================================================================
