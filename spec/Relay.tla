------------------------------- MODULE Relay -------------------------------
(* carbon.client: CarbonClientManager / CarbonClientFactory / CarbonClientProtocol / *)
(* FakeClientFactory with ReconnectingClientFactory.retry, plus the flow-control     *)
(* wiring of service.py and the receivers' pause bookkeeping (protocols.py).          *)
(* Everything runs on the reactor thread: ONE ACTION PER REACTOR CALLBACK, and the   *)
(* synchronous chains inside a callback (queueFull -> cacheFull -> pauseReceiving;   *)
(* queueHasSpace -> cacheSpaceAvailable -> resumeReceiving -> re-injection of the    *)
(* buffered points -> sendDatapoint ...) are sequential compositions of the pure     *)
(* state transformers below.  The whole mutable state is the record `s`.             *)
EXTENDS Integers, Sequences, FiniteSets, SequencesExt

CONSTANTS ND,          \* number of destinations
          NR,          \* number of receiver connections that may exist
          MaxQ,        \* MAX_QUEUE_SIZE
          HardC,       \* a datapoint is queued while len(queue) < HardC  (SEND_QUEUE_HARD_MAX)
          LowC,        \* "has space" when the sampled length < LowC       (SEND_QUEUE_LOW_WATERMARK)
          MaxPerMsg,   \* MAX_DATAPOINTS_PER_MESSAGE
          Flow,        \* USE_FLOW_CONTROL
          Dynamic,     \* DYNAMIC_ROUTER
          MaxRetries,  \* DYNAMIC_ROUTER_MAX_RETRIES
          RF,          \* replication factor of the (abstract) router
          Ratio,       \* USE_RATIO_RESET (connections of destinations that fall behind are reset)
          RemovalReleases, \* TRUE: a full queue emptied by the dynamic router's removal reports space (repaired code, F18)
          PostTake,    \* TRUE: the low-watermark test uses the queue length after the take (repaired code)
          MaxItems, MaxConnEvents

VARIABLES s, nitems, hi, nconn, lastEv
vars == <<s, nitems, hi, nconn, lastEv>>

Dest == 1..ND
Recv == 1..NR
Min2(a, b) == IF a <= b THEN a ELSE b

HasSet(st) == {d \in Dest : st.has[d]}
HasProto(st, d) == st.cs[d] = "connected"

\* the router: a deterministic stand-in for hashing (the destinations really used are
\* taken from the trace when a recorded execution is validated: `over`)
ModelRoute(i, H) ==
  IF H = {} THEN {}
  ELSE IF RF >= Cardinality(H) THEN H
  ELSE LET sq == SetToSortSeq(H, <)
           k == (i % Len(sq)) + 1
       IN {sq[((k + j - 1) % Len(sq)) + 1] : j \in 0..(RF - 1)}

\* -------------------------------------------------------------------------------
\* receivers and the global flags
PauseRecv(st) == [st EXCEPT !.rpaused = TRUE,
                            !.prod = [c \in Recv |-> IF st.rconn[c] THEN FALSE ELSE st.prod[c]]]
CacheFullEv(st) == LET s1 == [st EXCEPT !.tooFull = TRUE] IN IF Flow THEN PauseRecv(s1) ELSE s1

Max0(x) == IF x < 0 THEN 0 ELSE x

\* factory.sendDatapoint(metric, datapoint)
Enq(st, d, i) ==
  LET n == Len(st.q[d])
      s1 == IF n >= MaxQ /\ ~st.fullCalled[d]
              THEN CacheFullEv([st EXCEPT !.fullCalled[d] = TRUE]) ELSE st
      s2 == IF n < MaxQ \/ n < HardC
              THEN [s1 EXCEPT !.q[d] = Append(@, i), !.aout[d] = Append(@, i)]
              ELSE [s1 EXCEPT !.drops[d] = @ + 1, !.dropped = Append(@, <<i, d, n>>)]
  IN IF HasProto(s2, d) THEN [s2 EXCEPT !.st[d] = TRUE] ELSE s2

\* factory.sendHighPriorityDatapoint
EnqHi(st, d, i) ==
  LET nsent == Max0(Len(st.aout[d]) - Len(st.q[d]))      \* (total: a recorded state may hold more than was accounted)
      s2 == [st EXCEPT !.q[d] = <<i>> \o @,
                       !.aout[d] = SubSeq(@, 1, nsent) \o <<i>> \o SubSeq(@, nsent + 1, Len(@))]
  IN IF HasProto(s2, d) THEN [s2 EXCEPT !.st[d] = TRUE] ELSE s2

RECURSIVE EnqAll(_, _, _, _)
EnqAll(st, ds, i, isHi) ==
  IF ds = {} THEN st
  ELSE LET d == CHOOSE x \in ds : \A y \in ds : x <= y
       IN EnqAll(IF isHi THEN EnqHi(st, d, i) ELSE Enq(st, d, i), ds \ {d}, i, isHi)

\* CarbonClientManager.sendDatapoint / sendHighPriorityDatapoint with the route `ds`
RouteSend(st, i, isHi, ds) ==
  IF ds = {} THEN [st EXCEPT !.fake = Append(@, i)]
  ELSE EnqAll(st, ds, i, isHi)

\* the route of item i when it is (re-)routed as the k-th routing decision of this callback;
\* `ov` lists the routes observed in a recorded execution (empty when model checking)
RouteOf(i, st, k, ov) == IF k <= Len(ov) THEN ov[k] ELSE ModelRoute(i, HasSet(st))

\* re-injection of a list of items through events.metricGenerated (normal priority)
RECURSIVE Reinject(_, _, _, _)
Reinject(st, items, k, ov) ==
  IF items = <<>> THEN <<st, k>>
  ELSE Reinject(RouteSend(st, Head(items), FALSE, RouteOf(Head(items), st, k, ov)), Tail(items), k + 1, ov)

\* events.resumeReceivingMetrics(): flag, FakeClientFactory.reinjectDatapoints, receivers
ResumeRecv(st, k, ov) ==
  LET s1 == [st EXCEPT !.rpaused = FALSE]
      items == s1.fake
      r == Reinject([s1 EXCEPT !.fake = <<>>], items, k, ov)
      s2 == [r[1] EXCEPT !.fake = <<>>]           \* queue.clear() after the loop
      s3 == [s2 EXCEPT !.prod = [c \in Recv |-> IF s2.rconn[c] THEN TRUE ELSE s2.prod[c]]]
  IN <<s3, r[2]>>

SpaceAvailEv(st, k, ov) == LET s1 == [st EXCEPT !.tooFull = FALSE]
                           IN IF Flow THEN ResumeRecv(s1, k, ov) ELSE <<s1, k>>

\* factory.stopConnecting()
StopConnecting(st, d) ==
  LET s1 == [st EXCEPT !.trying[d] = FALSE, !.stopReq[d] = FALSE, !.rt[d] = FALSE]
  IN CASE st.cs[d] = "waiting" -> [s1 EXCEPT !.cs[d] = "stopped"]
       [] st.cs[d] = "connecting" -> [s1 EXCEPT !.cs[d] = "stopped"]   \* connector.stopConnecting()
       [] st.cs[d] = "connected" /\ st.pconn[d] ->
            [s1 EXCEPT !.pconn[d] = FALSE, !.closedBad = @ \/ (st.q[d] # <<>>)]
       [] OTHER -> s1

\* protocol.sendQueued()
SendQ(st, d, k, ov) ==
  LET n == Len(st.q[d]) IN
  IF ~HasProto(st, d) \/ st.tp[d] \/ n = 0 THEN <<st, k>>
  ELSE LET take == Min2(MaxPerMsg, n)
           \* connectionQualityMonitor() / resetConnectionForQualityReasons(): the previous interval's statistics say the
           \* destination falls behind -> protocol.disconnect() (the transport closes once its buffer is flushed; the
           \* connectionLost callback is a later ConnLost).  The batch taken next is still WRITTEN: a closing transport
           \* transmits what it is given before it closes - nothing taken from the queue may be dropped here.
           s0 == IF Ratio /\ st.slow /\ st.pconn[d] THEN [st EXCEPT !.pconn[d] = FALSE, !.rclosed[d] = TRUE] ELSE st
           s1 == [s0 EXCEPT !.q[d] = SubSeq(@, take + 1, n),
                            !.wire[d] = Append(@, SubSeq(st.q[d], 1, take))]
           \* checkQueue(): queueEmpty fires the pending stop
           s2 == IF s1.q[d] = <<>> /\ s1.stopReq[d] THEN StopConnecting(s1, d) ELSE s1
           sample == IF PostTake THEN Len(s1.q[d]) ELSE n
           r == IF s2.fullCalled[d] /\ sample < LowC
                  THEN SpaceAvailEv([s2 EXCEPT !.fullCalled[d] = FALSE], k, ov)
                  ELSE <<s2, k>>
           s3 == r[1]
       IN <<IF s3.q[d] # <<>> THEN [s3 EXCEPT !.st[d] = TRUE] ELSE s3, r[2]>>

\* factory.destinationDown()
DestDown(st, d, k, ov) ==
  IF st.retries[d] < MaxRetries \/ ~Dynamic \/ ~st.has[d] THEN <<st, k>>
  ELSE LET s1 == [st EXCEPT !.has[d] = FALSE]
           s2 == IF HasSet(s1) = {} THEN PauseRecv(s1) ELSE s1
           items == s2.q[d]
           nsent == Max0(Len(s2.aout[d]) - Len(items))
           \* the removed destination's queue is being emptied and nothing will ever drain it: if it had reported itself
           \* full, it reports space now (while another destination is left to route to) - otherwise the receivers would
           \* stay paused for as long as the destination is away (defect F18, repaired)
           r0 == IF RemovalReleases /\ s2.fullCalled[d] /\ HasSet(s2) # {}
                   THEN SpaceAvailEv([s2 EXCEPT !.fullCalled[d] = FALSE], k, ov) ELSE <<s2, k>>
           r == Reinject(r0[1], items, r0[2], ov)
       IN <<[r[1] EXCEPT !.q[d] = <<>>, !.aout[d] = SubSeq(@, 1, nsent)], r[2]>>

Retry(st, d) == IF st.trying[d] THEN [st EXCEPT !.retries[d] = @ + 1, !.rt[d] = TRUE, !.cs[d] = "waiting"]
                ELSE [st EXCEPT !.cs[d] = "stopped"]

\* CarbonClientManager.stopService(): stopClient() for every destination
RECURSIVE StopAll(_, _)
StopAll(st, ds) ==
  IF ds = {} THEN st
  ELSE LET d == CHOOSE x \in ds : \A y \in ds : x <= y
           s1 == [st EXCEPT !.has[d] = FALSE, !.stopReq[d] = TRUE]
           s2 == IF s1.q[d] = <<>> THEN StopConnecting(s1, d) ELSE s1
       IN StopAll(s2, ds \ {d})

\* -------------------------------------------------------------------------------
\* one state transformer per reactor callback (also used by Relay_Trace)
ArriveF(st, i, isHi, ov)  == RouteSend(st, i, isHi, RouteOf(i, st, 1, ov))
SendTimerF(st, d, ov)     == SendQ([st EXCEPT !.st[d] = FALSE], d, 1, ov)[1]
ConnMadeF(st, d, ov)      ==
  LET s1 == [st EXCEPT !.cs[d] = "connected", !.pconn[d] = TRUE, !.tp[d] = FALSE, !.retries[d] = 0, !.rclosed[d] = FALSE]
      r == IF ~s1.has[d] THEN ResumeRecv([s1 EXCEPT !.has[d] = TRUE], 1, ov) ELSE <<s1, 1>>
  IN SendQ(r[1], d, r[2], ov)[1]
ConnLostF(st, d, ov)      == DestDown(Retry([st EXCEPT !.pconn[d] = FALSE, !.tp[d] = FALSE, !.rclosed[d] = FALSE], d), d, 1, ov)[1]
ConnFailedF(st, d, ov)    == DestDown(Retry(st, d), d, 1, ov)[1]
RetryTimerF(st, d)        == [st EXCEPT !.rt[d] = FALSE, !.cs[d] = "connecting"]
TPauseF(st, d)            == [st EXCEPT !.tp[d] = TRUE]
TResumeF(st, d, ov)       == SendQ([st EXCEPT !.tp[d] = FALSE], d, 1, ov)[1]
StopF(st)                 == [StopAll(st, Dest) EXCEPT !.stopped = TRUE]
RConnectF(st, c)          == [st EXCEPT !.rconn[c] = TRUE, !.prod[c] = ~st.rpaused]
RDisconnectF(st, c)       == [st EXCEPT !.rconn[c] = FALSE, !.prod[c] = TRUE]
\* instrumentation.recordMetrics(): the statistics of the interval just ended say "behind" (b) or "keeping up"
QualityF(st, b)           == [st EXCEPT !.slow = b]

InitState ==
  [q |-> [d \in Dest |-> <<>>], aout |-> [d \in Dest |-> <<>>],
   cs |-> [d \in Dest |-> "connecting"], pconn |-> [d \in Dest |-> FALSE],
   tp |-> [d \in Dest |-> FALSE], st |-> [d \in Dest |-> FALSE], rt |-> [d \in Dest |-> FALSE],
   retries |-> [d \in Dest |-> 0], has |-> [d \in Dest |-> ~Dynamic],
   wire |-> [d \in Dest |-> <<>>], drops |-> [d \in Dest |-> 0], dropped |-> <<>>,
   fullCalled |-> [d \in Dest |-> FALSE], trying |-> [d \in Dest |-> TRUE],
   stopReq |-> [d \in Dest |-> FALSE], stopped |-> FALSE,
   fake |-> <<>>, tooFull |-> FALSE, rpaused |-> FALSE,
   rconn |-> [c \in Recv |-> FALSE], prod |-> [c \in Recv |-> TRUE], closedBad |-> FALSE, slow |-> FALSE,
   rclosed |-> [d \in Dest |-> FALSE]]     \* the connection is closing because of a quality reset

Init == /\ s = InitState /\ nitems = 0 /\ hi = {} /\ nconn = 0 /\ lastEv = <<"init", 0>>

\* a datapoint arrives from a receiver (isHi = FALSE) or from the daemon's own instrumentation
Arrive(isHi) ==
  /\ nitems < MaxItems /\ ~s.stopped
  /\ nitems' = nitems + 1
  /\ hi' = IF isHi THEN hi \cup {nitems + 1} ELSE hi
  /\ s' = ArriveF(s, nitems + 1, isHi, <<>>)
  /\ lastEv' = <<IF isHi THEN "ArriveHi" ELSE "Arrive", 0>>
  /\ UNCHANGED nconn

SendTimer(d) == /\ s.st[d]
                /\ s' = SendTimerF(s, d, <<>>) /\ lastEv' = <<"SendTimer", d>>
                /\ UNCHANGED <<nitems, hi, nconn>>

ConnMade(d) == /\ s.cs[d] = "connecting" /\ nconn < MaxConnEvents
               /\ nconn' = nconn + 1
               /\ s' = ConnMadeF(s, d, <<>>) /\ lastEv' = <<"ConnMade", d>>
               /\ UNCHANGED <<nitems, hi>>

ConnLost(d) == /\ s.cs[d] = "connected" /\ nconn < MaxConnEvents
               /\ nconn' = nconn + 1
               /\ s' = ConnLostF(s, d, <<>>) /\ lastEv' = <<"ConnLost", d>>
               /\ UNCHANGED <<nitems, hi>>

ConnFailed(d) == /\ s.cs[d] = "connecting" /\ nconn < MaxConnEvents
                 /\ nconn' = nconn + 1
                 /\ s' = ConnFailedF(s, d, <<>>) /\ lastEv' = <<"ConnFailed", d>>
                 /\ UNCHANGED <<nitems, hi>>

RetryTimer(d) == /\ s.rt[d]
                 /\ s' = RetryTimerF(s, d) /\ lastEv' = <<"RetryTimer", d>>
                 /\ UNCHANGED <<nitems, hi, nconn>>

TPause(d) == /\ s.cs[d] = "connected" /\ s.pconn[d] /\ ~s.tp[d]
             /\ s' = TPauseF(s, d) /\ lastEv' = <<"TPause", d>>
             /\ UNCHANGED <<nitems, hi, nconn>>

TResume(d) == /\ s.cs[d] = "connected" /\ s.pconn[d] /\ s.tp[d]
              /\ s' = TResumeF(s, d, <<>>) /\ lastEv' = <<"TResume", d>>
              /\ UNCHANGED <<nitems, hi, nconn>>

Stop == /\ ~s.stopped
        /\ \A d \in Dest : s.has[d]                    \* (removeDestination raises otherwise)
        /\ s' = StopF(s) /\ lastEv' = <<"Stop", 0>>
        /\ UNCHANGED <<nitems, hi, nconn>>

RConnect(c) == /\ ~s.rconn[c]
               /\ s' = RConnectF(s, c) /\ lastEv' = <<"RConnect", c>>
               /\ UNCHANGED <<nitems, hi, nconn>>

RDisconnect(c) == /\ s.rconn[c]
                  /\ s' = RDisconnectF(s, c) /\ lastEv' = <<"RDisconnect", c>>
                  /\ UNCHANGED <<nitems, hi, nconn>>

Quality(b) == /\ Ratio /\ s.slow # b /\ ~s.stopped
              /\ s' = QualityF(s, b) /\ lastEv' = <<IF b THEN "Slow" ELSE "Fast", 0>>
              /\ UNCHANGED <<nitems, hi, nconn>>

Next == \/ \E b \in BOOLEAN : Arrive(b) \/ Quality(b)
        \/ \E d \in Dest : \/ SendTimer(d) \/ ConnMade(d) \/ ConnLost(d) \/ ConnFailed(d)
                           \/ RetryTimer(d) \/ TPause(d) \/ TResume(d)
        \/ Stop
        \/ \E c \in Recv : RConnect(c) \/ RDisconnect(c)

Spec == Init /\ [][Next]_vars

-----------------------------------------------------------------------------
(* C07 *)
Flat(d) == FlattenSeq(s.wire[d])
\* in order, exactly once: what was written followed by what is queued is the abstract FIFO
FifoOnce == \A d \in Dest : Flat(d) \o s.q[d] = s.aout[d]
\* normal datapoints keep their arrival order at each destination
\* (with replication AND the dynamic router a removed destination's copy of a datapoint is re-routed to a destination that
\* may already hold the other copy: two separate acceptances into that queue, each written once - not judged here)
NormalOrder == (RF = 1 \/ ~Dynamic) => \A d \in Dest :
   LET nm == SelectSeq(s.aout[d], LAMBDA x : x \notin hi)
   IN \A a, b \in 1..Len(nm) : a < b => nm[a] # nm[b]
DropsCounted == /\ \A d \in Dest : s.drops[d] = Cardinality({k \in 1..Len(s.dropped) : s.dropped[k][2] = d})
                /\ \A k \in 1..Len(s.dropped) : s.dropped[k][3] >= HardC
Bounded == \A d \in Dest : Len(SelectSeq(s.q[d], LAMBDA x : x \notin hi)) <= HardC
BatchSize == \A d \in Dest : \A k \in 1..Len(s.wire[d]) : Len(s.wire[d][k]) <= MaxPerMsg /\ Len(s.wire[d][k]) >= 1
StopAfterFlush == ~s.closedBad
\* no datapoint vanishes: every item is on a wire, in a queue, buffered, or counted as dropped
Everywhere(i) == \/ \E d \in Dest : i \in ToSet(Flat(d)) \cup ToSet(s.q[d])
                 \/ i \in ToSet(s.fake)
                 \/ \E k \in 1..Len(s.dropped) : s.dropped[k][1] = i
NoLoss == ~s.stopped => \A i \in 1..nitems : Everywhere(i)

\* queued datapoints of a connected, unpaused destination always have a send scheduled (otherwise
\* nothing would ever transmit them)
SendScheduledS(st) == \A d \in Dest :
   (st.cs[d] = "connected" /\ st.pconn[d] /\ ~st.tp[d] /\ st.q[d] # <<>>) => st.st[d]
SendScheduled == SendScheduledS(s)

(* C09, relay side *)
\* (a destination the dynamic router has removed - or not yet admitted - keeps retrying in the background for as long as
\* it is unreachable: its retry timer and connection attempts are not something the daemon is waiting for)
Quiescent == /\ \A d \in Dest : ~s.st[d] /\ (s.has[d] => ~s.rt[d])
             /\ \A d \in Dest : s.cs[d] = "connected" => (s.pconn[d] /\ ~s.tp[d])
             /\ \A d \in Dest : s.has[d] => s.cs[d] # "connecting"
BelowWater == \A d \in Dest : Len(s.q[d]) < LowC
SomeoneUp == \E d \in Dest : s.cs[d] = "connected" /\ s.has[d]
Stuck == (s.rpaused \/ \E c \in Recv : s.rconn[c] /\ ~s.prod[c]) /\ BelowWater
NoStuck == (Quiescent /\ SomeoneUp /\ ~s.stopped) => ~Stuck

TypeOK == /\ nitems \in 0..MaxItems /\ \A d \in Dest : s.cs[d] \in {"connecting", "connected", "waiting", "stopped"}
Bound == nitems <= MaxItems /\ nconn <= MaxConnEvents
=============================================================================
