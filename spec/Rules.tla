-------------------------------- MODULE Rules --------------------------------
(* Rule-based and aggregation-aware routing (C16): loadRelayRules + RelayRulesRouter   *)
(* .getDestinations, and AggregatedConsistentHashingRouter.getDestinations on top of    *)
(* the aggregation-rule pattern language.  Mode "model": TLC enumerates small rule      *)
(* tables; mode "trace": judges recorded routing decisions of the real routers.         *)
EXTENDS Integers, Sequences, FiniteSets, Json, IOUtils, TLC, TLCExt

CONSTANTS Mode, MaxRules, NDest

VARIABLES tbl, tid
vars == <<tbl, tid>>

Dest == 1..NDest

\* RelayRulesRouter.getDestinations as the code iterates: rules in order, the default rule last
RECURSIVE RouteRec(_, _, _)
RouteRec(rules, configured, acc) ==
  IF rules = <<>> THEN acc
  ELSE LET r == Head(rules) IN
       IF r.m THEN (IF r.c THEN RouteRec(Tail(rules), configured, acc \cup (r.d \cap configured))
                    ELSE acc \cup (r.d \cap configured))
       ELSE RouteRec(Tail(rules), configured, acc)

\* the same as a closed form: the matching rules up to and including the first one without `continue`
RouteSet(rules, configured) ==
  LET n == Len(rules)
      stops == {i \in 1..n : rules[i].m /\ ~rules[i].c}
      last == IF stops = {} THEN n ELSE CHOOSE i \in stops : \A j \in stops : i <= j
  IN UNION {rules[i].d \cap configured : i \in {j \in 1..last : rules[j].m}}

RuleSet == [m : BOOLEAN, c : BOOLEAN, d : SUBSET Dest]
Tables == UNION {[1..n -> RuleSet] : n \in 0..MaxRules}
WithDefault(t, dd) == Append(t, [m |-> TRUE, c |-> FALSE, d |-> dd])

Cases == IF Mode = "trace" THEN JsonDeserialize(IOEnv.TRACE_FILE) ELSE <<>>
Init == IF Mode = "model" THEN tbl \in Tables /\ tid = 0 ELSE tid \in 1..Len(Cases) /\ tbl = <<>>
Next == UNCHANGED vars
Spec == Init /\ [][Next]_vars

\* C16 on the specification
ClosedForm == Mode = "model" =>
  \A cfgd \in SUBSET Dest : \A dd \in SUBSET Dest :
     RouteRec(WithDefault(tbl, dd), cfgd, {}) = RouteSet(WithDefault(tbl, dd), cfgd)
OnlyConfigured == Mode = "model" =>
  \A cfgd \in SUBSET Dest : RouteRec(WithDefault(tbl, Dest), cfgd, {}) \subseteq cfgd

-----------------------------------------------------------------------------
(* patterns of relay rules: literal grammar, matched case-insensitively anywhere (re.search, re.I);
   names and literals arrive lower-cased *)
Occurs(lit, name) == \E i \in 0..(Len(name) - Len(lit)) : SubSeq(name, i + 1, i + Len(lit)) = lit
PatMatches(p, name) ==
  CASE p.k = "sub" -> Occurs(p.lit, name)
    [] p.k = "prefix" -> Len(name) >= Len(p.lit) /\ SubSeq(name, 1, Len(p.lit)) = p.lit
    [] p.k = "suffix" -> Len(name) >= Len(p.lit) /\ SubSeq(name, Len(name) - Len(p.lit) + 1, Len(name)) = p.lit
    [] p.k = "exact" -> name = p.lit
    [] OTHER -> FALSE

(* the aggregation-rule pattern language (as in Aggregator_Trace) *)
SegOK(part, seg) ==
  CASE part.k = "lit" -> seg = part.v
    [] part.k \in {"star", "field"} -> seg # <<>>
    [] part.k = "glob" -> /\ Len(seg) >= Len(part.pre) + Len(part.post)
                          /\ SubSeq(seg, 1, Len(part.pre)) = part.pre
                          /\ SubSeq(seg, Len(seg) - Len(part.post) + 1, Len(seg)) = part.post
    [] OTHER -> FALSE
DIdx(pat) == IF \E k \in 1..Len(pat) : pat[k].k = "dfield"
               THEN CHOOSE k \in 1..Len(pat) : pat[k].k = "dfield" ELSE 0
MatchOK(pat, name) ==
  LET n == Len(pat)  d == DIdx(pat) IN
  IF d = 0 THEN Len(name) = n /\ \A k \in 1..n : SegOK(pat[k], name[k])
  ELSE /\ Len(name) >= n
       /\ LET extra == Len(name) - n IN
          /\ \A k \in 1..(d - 1) : SegOK(pat[k], name[k])
          /\ \A k \in (d + 1)..n : SegOK(pat[k], name[k + extra])
          /\ ~(extra = 0 /\ name[d] = <<>>)
Cap(pat, name, f) ==
  LET d == DIdx(pat)
      k == CHOOSE j \in 1..Len(pat) : pat[j].k \in {"field", "dfield"} /\ pat[j].n = f
      extra == IF d = 0 THEN 0 ELSE Len(name) - Len(pat)
  IN IF pat[k].k = "dfield" THEN SubSeq(name, k, k + extra)
     ELSE <<name[IF d # 0 /\ k > d THEN k + extra ELSE k]>>
RECURSIVE OutName(_, _, _)
OutName(out, pat, name) ==
  IF out = <<>> THEN <<>>
  ELSE (IF Head(out).k = "lit" THEN <<Head(out).v>> ELSE Cap(pat, name, Head(out).n)) \o OutName(Tail(out), pat, name)

ToSetS(x) == {x[i] : i \in 1..Len(x)}
CaseFlags ==
  LET c == Cases[tid] IN
  IF c.kind = "rules"
    THEN LET rs == [i \in 1..Len(c.rules) |->
                      [m |-> PatMatches(c.rules[i].pat, c.name), c |-> c.rules[i].cont = 1, d |-> ToSetS(c.rules[i].dests)]]
             exp == RouteSet(WithDefault(rs, ToSetS(c.default)), ToSetS(c.configured))
         IN (IF ToSetS(c.obs) # exp THEN {"route"} ELSE {})
            \cup (IF ~(ToSetS(c.obs) \subseteq ToSetS(c.configured)) THEN {"unconfigured-destination"} ELSE {})
    ELSE \* aggregation-aware hashing: the hash destinations of every aggregate the rules map the metric to
         LET names == {OutName(c.rules[i].out, c.rules[i].pat, c.name) : i \in {j \in 1..Len(c.rules) : MatchOK(c.rules[j].pat, c.name)}}
             keys == IF names = {} THEN {c.name} ELSE names
             known == {c.hashd[i][1] : i \in 1..Len(c.hashd)}
         IN IF ~(keys \subseteq known) THEN {"aggregate-name"}
            ELSE IF ToSetS(c.obs) # UNION {ToSetS(c.hashd[i][2]) : i \in {j \in 1..Len(c.hashd) : c.hashd[j][1] \in keys}}
                 THEN {"aggregated-route"} ELSE {}
Report == IF Mode = "trace"
            THEN /\ \A f \in CaseFlags : PrintT(<<"F", tid, f>>)
                 /\ PrintT(<<"DONE", tid>>)
            ELSE TRUE
=============================================================================
