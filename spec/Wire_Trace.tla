----------------------------- MODULE Wire_Trace -----------------------------
(* Judges executions recorded from the real MetricLineReceiver / MetricPickleReceiver *)
(* (fed through dataReceived under a chosen segmentation) and MetricDatagramReceiver   *)
(* (one datagram per segment).  A record lists the frames of the byte stream           *)
(* [len, kind, trip, ids] and, per segment, how many bytes were handed over and what    *)
(* the recorder on events.metricReceived saw: the ids of the datapoints delivered (0 for*)
(* a datapoint whose name, timestamp or value is not bit-identical to what was sent),   *)
(* whether an exception escaped the handler and whether the connection was closed.      *)
EXTENDS Wire, Json, IOUtils, TLC, TLCExt

VARIABLES tid, l, got, flags
tvars == <<vars, tid, l, got, flags>>

Traces == JsonDeserialize(IOEnv.TRACE_FILE)
T == Traces[tid]
Fs == [i \in 1..Len(T.frames) |-> [len |-> T.frames[i].len, kind |-> T.frames[i].kind, trip |-> T.frames[i].trip]]

RECURSIVE Flat(_)
Flat(ss) == IF ss = <<>> THEN <<>> ELSE Head(ss) \o Flat(Tail(ss))
ExpectedIds(p) == Flat([j \in 1..Len(Expected(Fs, p)) |-> T.frames[Expected(Fs, p)[j]].ids])
IsPrefix(a, b) == Len(a) <= Len(b) /\ SubSeq(b, 1, Len(a)) = a
ToSetS(s) == {s[i] : i \in 1..Len(s)}

TInit == /\ tid \in 1..Len(Traces) /\ l = 1 /\ got = <<>> /\ flags = {}
         /\ frames = <<>> /\ pos = 0 /\ buf = 0 /\ nextf = 1 /\ delivered = <<>> /\ closed = FALSE

TStep ==
  /\ l <= Len(T.segs)
  /\ LET e == T.segs[l]
         p2 == pos + e.n
         g2 == got \o e.delivered
         ex == ExpectedIds(p2) IN
     /\ pos' = p2 /\ got' = g2
     /\ flags' = IF T.mode = "final"
          \* a stream whose frame structure is unknown (byte-level mutant): no exception may escape and the
          \* final outcome must equal that of the same bytes delivered in one piece (T.ref, T.refclosed)
          THEN flags \cup (IF e.escaped = 1 THEN {"escaped"} ELSE {})
                     \cup (IF l = Len(T.segs) /\ g2 # T.ref THEN {"segmentation-dependent"} ELSE {})
                     \cup (IF l = Len(T.segs) /\ e.closed # T.refclosed THEN {"segmentation-dependent"} ELSE {})
          ELSE flags
          \cup (IF e.escaped = 1 THEN {"escaped"} ELSE {})
          \cup (IF e.closed = 1 /\ FirstOver(Fs, p2) = 0 THEN {"closed"} ELSE {})
          \cup (IF 0 \in ToSetS(e.delivered) THEN {"corrupt"} ELSE {})
          \cup (IF g2 = ex \/ 0 \in ToSetS(g2) THEN {}
                ELSE IF IsPrefix(g2, ex) THEN {"lost-or-late"}
                ELSE IF IsPrefix(ex, g2) THEN {"early-or-duplicated"}
                ELSE IF ToSetS(g2) = ToSetS(ex) /\ Len(g2) = Len(ex) THEN {"reordered"}
                ELSE {"wrong-datapoints"})
  /\ l' = l + 1
  /\ UNCHANGED <<tid, frames, buf, nextf, delivered, closed>>

TSpec == TInit /\ [][TStep]_tvars
Report == IF l = Len(T.segs) + 1
            THEN /\ \A f \in flags : PrintT(<<"F", tid, f>>)
                 /\ PrintT(<<"DONE", tid>>)
            ELSE TRUE
=============================================================================
