----------------------------- MODULE WriterLin -----------------------------
(* Property layer for the writer (C03, C04): a deterministic judge of executions    *)
(* recorded from the real carbon.writer.writeForever() running against the real     *)
(* cache, an in-memory TimeSeriesDatabase plugin with a fault script, the real       *)
(* instrumentation counters and the twisted error log.  The verdict is total: every  *)
(* trace is consumed to its end and the failing clauses are named in `flags`.        *)
(*                                                                                   *)
(* Events: stored (a store() returned), drained (drain_metric() returned a batch to  *)
(* the writer), db (exists / create / write call with outcome), cnt (counter         *)
(* snapshot, logged after every drained/db event), stopBefore, stopDuring, exit      *)
(* (writeForever returned), end (what is still cached).                              *)
EXTENDS Integers, Sequences, FiniteSets, Json, IOUtils, TLC, TLCExt

VARIABLES tid, l, held, inw, inwM, attempted, written, pre, stopped, lastcnt, expect, flags
vars == <<tid, l, held, inw, inwM, attempted, written, pre, stopped, lastcnt, expect, flags>>

Traces == JsonDeserialize(IOEnv.TRACE_FILE)
Ev == Traces[tid].ev

Zero == [creates |-> 0, errors |-> 0, dropped |-> 0, committed |-> 0, logerr |-> 0]
NoExpect == [dropped |-> 0, committed |-> 0, errs |-> 0, creates |-> 0]
SeqSet(s) == {<<s[i][1], s[i][2]>> : i \in 1..Len(s)}
Ids(b) == {x[2] : x \in b}

Init == /\ tid \in 1..Len(Traces)
        /\ l = 1 /\ held = {} /\ inw = {} /\ inwM = 0 /\ attempted = {} /\ written = {}
        /\ pre = {} /\ stopped = FALSE /\ lastcnt = Zero /\ expect = NoExpect /\ flags = {}

Step ==
  /\ l <= Len(Ev)
  /\ l' = l + 1
  /\ UNCHANGED tid
  /\ LET e == Ev[l] IN
     CASE e.k = "stored" ->
            /\ held' = {p \in held : ~(p[1] = e.m /\ p[2] = e.ts)} \cup {<<e.m, e.ts, e.id>>}
            /\ pre' = IF stopped THEN pre ELSE pre \cup {e.id}
            /\ UNCHANGED <<inw, inwM, attempted, written, stopped, lastcnt, expect, flags>>
       [] e.k = "drained" ->
            LET b == SeqSet(e.batch)
                mine == {<<p[2], p[3]>> : p \in {q \in held : q[1] = e.m}} IN
            /\ flags' = flags \cup (IF inw # {} THEN {"silentdiscard"} ELSE {})
                              \cup (IF e.m # 0 /\ b # mine THEN {"drainmismatch"} ELSE {})
            /\ inw' = b /\ inwM' = e.m
            /\ held' = {p \in held : p[1] # e.m}
            /\ UNCHANGED <<attempted, written, pre, stopped, lastcnt, expect>>
       [] e.k = "db" /\ e.op = "exists" ->
            /\ IF inw # {} /\ e.m = inwM
                 THEN IF e.ok = 0
                        THEN /\ expect' = [expect EXCEPT !.errs = @ + 1] /\ inw' = {}
                        ELSE IF e.res = 0
                        THEN /\ expect' = [expect EXCEPT !.dropped = @ + 1] /\ inw' = {}
                        ELSE UNCHANGED <<expect, inw>>
                 ELSE /\ expect' = IF e.ok = 0 THEN [expect EXCEPT !.errs = @ + 1] ELSE expect
                      /\ UNCHANGED inw
            /\ UNCHANGED <<held, inwM, attempted, written, pre, stopped, lastcnt, flags>>
       [] e.k = "db" /\ e.op = "create" ->
            /\ expect' = IF e.ok = 1 THEN [expect EXCEPT !.creates = @ + 1]
                         ELSE [expect EXCEPT !.errs = @ + 1]
            /\ UNCHANGED <<held, inw, inwM, attempted, written, pre, stopped, lastcnt, flags>>
       [] e.k = "db" /\ e.op = "write" ->
            LET b == SeqSet(e.pts) IN
            /\ flags' = flags
                 \cup (IF e.m # inwM \/ ~(Ids(b) \subseteq Ids(inw)) THEN {"foreignwrite"} ELSE {})
                 \cup (IF e.m = inwM /\ Ids(b) # Ids(inw) /\ Ids(b) \subseteq Ids(inw) THEN {"partialwrite"} ELSE {})
                 \cup (IF Ids(b) \cap attempted # {} THEN {"doublewrite"} ELSE {})
                 \cup (IF e.has = 0 THEN {"writebeforecreate"} ELSE {})
            /\ attempted' = attempted \cup Ids(b)
            /\ written' = IF e.ok = 1 THEN written \cup Ids(b) ELSE written
            /\ expect' = IF e.ok = 1 THEN [expect EXCEPT !.committed = @ + Cardinality(b)]
                         ELSE [expect EXCEPT !.errs = @ + 1]
            /\ inw' = {}
            /\ UNCHANGED <<held, inwM, pre, stopped, lastcnt>>
       [] e.k = "cnt" ->
            /\ flags' = flags
                 \cup (IF e.dropped - lastcnt.dropped # expect.dropped THEN {"counter:droppedCreates"} ELSE {})
                 \cup (IF e.committed - lastcnt.committed # expect.committed THEN {"counter:committedPoints"} ELSE {})
                 \cup (IF e.creates - lastcnt.creates # expect.creates THEN {"counter:creates"} ELSE {})
                 \cup (IF (e.errors - lastcnt.errors) + (e.logerr - lastcnt.logerr) < expect.errs
                         THEN {"unreportederror"} ELSE {})
            /\ lastcnt' = [creates |-> e.creates, errors |-> e.errors, dropped |-> e.dropped,
                           committed |-> e.committed, logerr |-> e.logerr]
            /\ expect' = NoExpect
            /\ UNCHANGED <<held, inw, inwM, attempted, written, pre, stopped>>
       [] e.k = "stopBefore" ->
            /\ stopped' = TRUE
            /\ UNCHANGED <<held, inw, inwM, attempted, written, pre, lastcnt, expect, flags>>
       [] e.k = "exit" ->
            /\ flags' = flags
                 \cup (IF inw # {} THEN {"silentdiscard"} ELSE {})
                 \cup (IF \E p \in held : p[3] \in pre THEN {"unflushed"} ELSE {})
            /\ UNCHANGED <<held, inw, inwM, attempted, written, pre, stopped, lastcnt, expect>>
       [] e.k = "end" ->
            /\ flags' = flags \cup (IF {<<x[1], x[2], x[3]>> : x \in {e.cached[i] : i \in 1..Len(e.cached)}} # held
                                      THEN {"heldmismatch"} ELSE {})
            /\ UNCHANGED <<held, inw, inwM, attempted, written, pre, stopped, lastcnt, expect>>
       [] OTHER ->
            UNCHANGED <<held, inw, inwM, attempted, written, pre, stopped, lastcnt, expect, flags>>

Spec == Init /\ [][Step]_vars

Report == IF l = Len(Ev) + 1
            THEN /\ \A f \in flags : PrintT(<<"F", tid, f>>)
                 /\ PrintT(<<"DONE", tid>>)
            ELSE TRUE
=============================================================================
