-------------------------------- MODULE Wire --------------------------------
(* The listeners' framing and per-frame decode outcome (C01, C11):                  *)
(*   LineOnlyReceiver.dataReceived + MetricLineReceiver.lineReceived,                *)
(*   Int32StringReceiver.dataReceived + MetricPickleReceiver.stringReceived,         *)
(*   MetricDatagramReceiver.datagramReceived (one datagram = all its lines at once). *)
(* A stream is a sequence of frames [len, kind, trip]: len bytes on the wire; kind    *)
(* "good" (well-formed: its datapoints must be delivered), "bad" (malformed in any of  *)
(* the ways of C11: must be skipped, nothing else happens) or "over" (exceeds the      *)
(* maximum length: the receiver closes the connection once `trip` of its bytes have    *)
(* arrived).  Segment(k) is one dataReceived() call with the next k bytes; it buffers  *)
(* and consumes every frame that has become complete, like the receivers' loops.       *)
(* There is deliberately no action for "an exception escapes the handler".             *)
EXTENDS Integers, Sequences, FiniteSets

CONSTANTS MaxFrames, MaxLen

VARIABLES frames, pos, buf, nextf, delivered, closed
vars == <<frames, pos, buf, nextf, delivered, closed>>

Kinds == {"good", "bad", "over"}
FrameSet == [len : 1..MaxLen, kind : Kinds, trip : 1..MaxLen]
Total(fs) == IF fs = <<>> THEN 0 ELSE LET S[i \in 0..Len(fs)] == IF i = 0 THEN 0 ELSE S[i - 1] + fs[i].len IN S[Len(fs)]
EndOf(fs, i) == Total(SubSeq(fs, 1, i))

Init == /\ frames \in UNION {[1..n -> {f \in FrameSet : f.trip <= f.len}] : n \in 1..MaxFrames}
        /\ pos = 0 /\ buf = 0 /\ nextf = 1 /\ delivered = <<>> /\ closed = FALSE

\* the receiver's loop over its buffer: <<buf', nextf', delivered', closed'>>
RECURSIVE Consume(_, _, _, _)
Consume(b, nf, dl, fs) ==
  IF nf > Len(fs) THEN <<b, nf, dl, FALSE>>
  ELSE LET f == fs[nf] IN
       IF f.kind = "over" /\ b >= f.trip THEN <<b, nf, dl, TRUE>>          \* length limit exceeded: loseConnection
       ELSE IF b < f.len THEN <<b, nf, dl, FALSE>>                          \* frame still incomplete
       ELSE Consume(b - f.len, nf + 1, IF f.kind = "good" THEN Append(dl, nf) ELSE dl, fs)

Segment(k) ==
  /\ ~closed /\ k >= 1 /\ pos + k <= Total(frames)
  /\ LET r == Consume(buf + k, nextf, delivered, frames) IN
       /\ buf' = r[1] /\ nextf' = r[2] /\ delivered' = r[3] /\ closed' = r[4]
  /\ pos' = pos + k
  /\ UNCHANGED frames

Next == \E k \in 1..(MaxFrames * MaxLen) : Segment(k)
Spec == Init /\ [][Next]_vars

-----------------------------------------------------------------------------
\* what must have been delivered once `p` bytes have arrived, whatever the segmentation
FirstOver(fs, p) ==
  LET S == {i \in 1..Len(fs) : fs[i].kind = "over" /\ p >= EndOf(fs, i - 1) + fs[i].trip}
  IN IF S = {} THEN 0 ELSE CHOOSE i \in S : \A j \in S : i <= j
Expected(fs, p) ==
  LET fo == FirstOver(fs, p)
      upto == IF fo = 0 THEN Len(fs) ELSE fo - 1
  IN SelectSeq([i \in 1..upto |-> i], LAMBDA i : fs[i].kind = "good" /\ EndOf(fs, i) <= p)

\* C01: exactly once, in order, nothing early, nothing late - independent of the cuts
ExactlyOnceInOrder == delivered = Expected(frames, pos)
\* C11: only an over-long frame closes the connection
CloseOnlyOversize == closed <=> FirstOver(frames, pos) # 0
AppendOnly == [][Len(delivered') >= Len(delivered) /\ SubSeq(delivered', 1, Len(delivered)) = delivered]_vars
=============================================================================
