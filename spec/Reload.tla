------------------------------- MODULE Reload -------------------------------
(* The periodic re-read of a list / rules file, as carbon does it in three places with the same code shape:
   carbon.regexlist.RegexList.read_list (white- and blacklist, C12), carbon.aggregator.rules.RuleManager.read_rules
   (aggregation rules: aggregation-aware routing, C16, and the aggregator itself, C08) and
   carbon.rewrite._RewriteRuleManager.read_rules (C08, Pipeline.tla's pre / post rewriting).

     read():  if not exists(file): rules := {} ; [last := 0]  ; return       -- Absent
              try mtime := getmtime(file) except OSError: log ; return       -- Fault (rules kept)
              if mtime <= last: return                                        -- Unchanged
              rules := parse(file) ; last := mtime                            -- Load

   The environment writes, removes and restores the file between ticks of the 10 s LoopingCall.  A file carries its
   body and its modification time; modification times may be PRESERVED (mv, rsync -t, tar, a deployment tool), so a
   file that comes back after a removal may carry any time, including the one it had before.  While the file is
   present a rewrite advances the time (an editor / `cp`): what the mtime shortcut cannot see is outside its contract.

   Fresh: after a tick that could stat the file, the rules in force are the file's body (nothing if it is absent).

   ResetOnAbsent = FALSE is carbon before the repair of F20: `last` survives the removal, and a file restored with a
   preserved time is never read again (TLC's 5-state counter-example; negative control of every run).
   FaultClears = TRUE is the seeded change C12_20 / C16_20 (a failing getmtime() clears the rules). *)
EXTENDS Naturals, TLC
CONSTANTS Bodies,        \* file contents (model values or small integers); 0 stands for "no rules"
          MaxTime,       \* modification times 1..MaxTime
          ResetOnAbsent, \* BOOLEAN: the Absent branch forgets `last`
          FaultClears    \* BOOLEAN: the Fault branch clears the rules (seeded defect)
VARIABLES file,      \* [present |-> BOOLEAN, body, mtime]
          inforce,   \* body in force (0: none)
          last,      \* rules_last_read
          synced,    \* TRUE right after a tick that could stat the file and before the environment moves again
          prevtime   \* environment: the time of the newest file the daemon may have seen since it last saw none
vars == <<file, inforce, last, synced, prevtime>>

Times == 1..MaxTime

Init == /\ file \in {[present |-> FALSE, body |-> 0, mtime |-> 0]}
                \cup {[present |-> TRUE, body |-> b, mtime |-> t] : b \in Bodies, t \in Times}
        /\ inforce = 0 /\ last = 0 /\ synced = FALSE /\ prevtime = file.mtime

\* ---- the environment
Rewrite(b, t) == /\ file.present /\ t > file.mtime        \* an edit in place advances the time
                 /\ file' = [present |-> TRUE, body |-> b, mtime |-> t]
                 /\ synced' = FALSE /\ prevtime' = t /\ UNCHANGED <<inforce, last>>
Remove == /\ file.present
          /\ file' = [present |-> FALSE, body |-> 0, mtime |-> 0]
          /\ synced' = FALSE /\ UNCHANGED <<inforce, last, prevtime>>
\* once a tick has seen the file gone ANY preserved time may come back, also the old one; a swap between two ticks
\* is a rewrite as far as the daemon can tell and has to advance the time
Restore(b, t) == /\ ~file.present /\ t > prevtime
                 /\ file' = [present |-> TRUE, body |-> b, mtime |-> t]
                 /\ synced' = FALSE /\ prevtime' = t /\ UNCHANGED <<inforce, last>>

\* ---- one tick of the re-read task (read_from() performs the first one)
TickAbsent == /\ ~file.present
              /\ inforce' = 0
              /\ last' = IF ResetOnAbsent THEN 0 ELSE last
              /\ synced' = TRUE /\ prevtime' = 0 /\ UNCHANGED file
TickUnchanged == /\ file.present /\ file.mtime <= last
                 /\ synced' = TRUE /\ UNCHANGED <<file, inforce, last, prevtime>>
TickLoad == /\ file.present /\ file.mtime > last
            /\ inforce' = file.body /\ last' = file.mtime
            /\ synced' = TRUE /\ UNCHANGED <<file, prevtime>>
TickFault == /\ file.present                               \* getmtime() raises although exists() said yes
             /\ inforce' = IF FaultClears THEN 0 ELSE inforce
             /\ synced' = FALSE /\ UNCHANGED <<file, last, prevtime>>

Next == \/ \E b \in Bodies, t \in Times : Rewrite(b, t) \/ Restore(b, t)
        \/ Remove \/ TickAbsent \/ TickUnchanged \/ TickLoad \/ TickFault
Spec == Init /\ [][Next]_vars

TypeOK == /\ file.present \in BOOLEAN /\ inforce \in Bodies \cup {0} /\ last \in Times \cup {0}
Fresh == synced => inforce = (IF file.present THEN file.body ELSE 0)
\* a fault must not change what is in force
FaultKeeps == [][(file' = file /\ last' = last /\ ~synced') => inforce' = inforce]_vars
=============================================================================
