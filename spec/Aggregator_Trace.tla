-------------------------- MODULE Aggregator_Trace --------------------------
(* Judges executions recorded from the real AggregationProcessor / RuleManager /     *)
(* BufferManager on a virtual clock (C08).  Events: "in" (a datapoint went through   *)
(* process(): series, timestamp, id, what was forwarded) and "tick" (the clock        *)
(* advanced one second; emissions decoded to the ids they aggregate).  Every event    *)
(* carries the observed buffers of every series.  The spec's transformer is applied   *)
(* to the previously observed state (re-synchronisation), the property clauses are    *)
(* evaluated on the OBSERVED emissions with ghost bookkeeping of what was received.   *)
(* A record of kind "match" is a pattern-matching case for the rule language oracle.  *)
EXTENDS Aggregator, Json, IOUtils, TLC, TLCExt

VARIABLES tid, l, flags
tvars == <<vars, tid, l, flags>>

Traces == JsonDeserialize(IOEnv.TRACE_FILE)
T == Traces[tid]
Ev == T.ev

Recs(js) == [k \in 1..Len(js) |-> [i |-> js[k][1], vals |-> js[k][2], inact |-> js[k][3]]]
ObsA(p) == [buf |-> [s \in Series |-> Recs(p.buf[s])], conf |-> [s \in Series |-> p.conf[s]],
            next |-> [s \in Series |-> p.next[s]], now |-> p.now]

\* buffers compared up to the order of the values inside an interval buffer
SameBuf(x, y) == /\ Len(x) = Len(y)
                 /\ \A k \in 1..Len(x) : x[k].i = y[k].i /\ x[k].inact = y[k].inact
                                         /\ ToSet(x[k].vals) = ToSet(y[k].vals) /\ Len(x[k].vals) = Len(y[k].vals)

Drift(post, obs) ==
     (IF \E s \in Series : ~SameBuf(post.buf[s], obs.buf[s]) THEN {"drift:buffers"} ELSE {})
\cup (IF post.conf # obs.conf THEN {"drift:configured"} ELSE {})
\cup (IF \E s \in Series : obs.conf[s] /\ post.next[s] # obs.next[s] THEN {"drift:timer"} ELSE {})

TInit == /\ tid \in 1..Len(Traces) /\ l = 1 /\ flags = {}
         /\ a = [InitA EXCEPT !.now = IF T.kind = "run" THEN T.start ELSE 0] /\ nin = 0 /\ emitted = <<>>
         /\ recvAll = [s \in Series |-> <<>>] /\ sinceEmit = [s \in Series |-> <<>>]
         /\ expired = {} /\ viol = {}

TStep ==
  /\ l <= Len(Ev)
  /\ l' = l + 1 /\ UNCHANGED <<tid, nin, viol>>
  /\ LET e == Ev[l]
         obs == ObsA(e.p) IN
     IF e.e = "inself"
       THEN \* a datapoint named like the aggregate it feeds (a series outside the observed ones):
            \* only the forwarding clause applies - it must NOT be passed through
            /\ a' = obs
            /\ flags' = flags \cup (IF e.fwd # 0 THEN {"forward"} ELSE {})
            /\ UNCHANGED <<emitted, expired, recvAll, sinceEmit>>
     ELSE IF e.e = "in"
       THEN LET post == InputF(a, e.s, e.ts, e.id)
                expectFwd == T.forwardAll /\ ~e.selfnamed IN
            /\ a' = obs
            /\ recvAll' = [recvAll EXCEPT ![e.s] = Append(@, <<Interval(e.ts), e.id>>)]
            /\ sinceEmit' = [sinceEmit EXCEPT ![e.s] = Append(@, <<Interval(e.ts), e.id>>)]
            /\ flags' = flags \cup Drift(post, obs)
                 \cup (IF e.fwd # (IF expectFwd THEN 1 ELSE 0) THEN {"forward"} ELSE {})
                 \cup (IF e.fwdsame = 0 THEN {"forward-altered"} ELSE {})
            /\ UNCHANGED <<emitted, expired>>
       ELSE LET r == TickF(a)
                post == r[1]
                em == [k \in 1..Len(e.em) |-> <<e.em[k][1], e.em[k][2], e.em[k][3]>>]
                \* intervals that leave the retention horizon by the specified rules (age, then the newest MAX+2)
                gone == UNION {{<<s, a.buf[s][k].i>> : k \in {j \in 1..Len(a.buf[s]) : Idx(post.buf[s], a.buf[s][j].i) = 0}} : s \in Series}
                early == \E s \in Series : \E k \in 1..Len(post.buf[s]) : Idx(obs.buf[s], post.buf[s][k].i) = 0 IN
            /\ a' = obs
            /\ emitted' = <<>>
            /\ flags' = flags \cup Drift(post, obs)
                 \cup UNION {EmitViol(em[k], sinceEmit, recvAll, expired) : k \in 1..Len(em)}
                 \cup (IF \E k \in 1..Len(em) : em[k][2] % F # 0 THEN {"aligned"} ELSE {})
                 \cup (IF early THEN {"dropped-within-horizon"} ELSE {})
                 \cup (IF {em[k] : k \in 1..Len(em)} # {r[2][k] : k \in 1..Len(r[2])} THEN {"drift:emissions"} ELSE {})
                 \cup (IF \E s \in Due([a EXCEPT !.now = @ + 1]) : Len(obs.buf[s]) > M + 2
                         THEN {"more-than-M+2-after-flush"} ELSE {})
                 \cup (IF \E s \in Series : obs.buf[s] = <<>> /\ (obs.conf[s] \/ e.p.timer[s]) THEN {"idle-series-not-released"} ELSE {})
            /\ sinceEmit' = [s \in Series |-> SelectSeq(sinceEmit[s],
                                LAMBDA x : ~\E k \in 1..Len(em) : em[k][1] = s /\ em[k][2] = x[1])]
            /\ expired' = expired \cup gone
            /\ UNCHANGED recvAll

-----------------------------------------------------------------------------
(* The aggregation-rule pattern language (AggregationRule.build_regex / build_template) over
   names given as sequences of dot-separated segments of character codes:
     lit  - a literal segment                 star  - '*'       : one non-empty dot-free segment
     glob - 'pre*post' inside one segment     field - '<f>'     : one non-empty dot-free segment
     dfield - '<<f>>' : one or more whole segments (may contain dots)
   A pattern matches whole names only. *)
SegOK(part, seg) ==
  CASE part.k = "lit" -> seg = part.v
    [] part.k \in {"star", "field"} -> seg # <<>>
    [] part.k = "glob" -> /\ Len(seg) >= Len(part.pre) + Len(part.post)
                          /\ SubSeq(seg, 1, Len(part.pre)) = part.pre
                          /\ SubSeq(seg, Len(seg) - Len(part.post) + 1, Len(seg)) = part.post
    [] OTHER -> FALSE
DIdx(pat) == IF \E k \in 1..Len(pat) : pat[k].k = "dfield"
               THEN CHOOSE k \in 1..Len(pat) : pat[k].k = "dfield" ELSE 0
MatchOK(pat, name) ==
  LET n == Len(pat)  d == DIdx(pat) IN
  IF d = 0 THEN Len(name) = n /\ \A k \in 1..n : SegOK(pat[k], name[k])
  ELSE /\ Len(name) >= n
       /\ LET extra == Len(name) - n IN
          /\ \A k \in 1..(d - 1) : SegOK(pat[k], name[k])
          /\ \A k \in (d + 1)..n : SegOK(pat[k], name[k + extra])
          /\ ~(extra = 0 /\ name[d] = <<>>)
Cap(pat, name, f) ==
  LET d == DIdx(pat)
      k == CHOOSE j \in 1..Len(pat) : pat[j].k \in {"field", "dfield"} /\ pat[j].n = f
      extra == IF d = 0 THEN 0 ELSE Len(name) - Len(pat)
  IN IF pat[k].k = "dfield" THEN SubSeq(name, k, k + extra)
     ELSE <<name[IF d # 0 /\ k > d THEN k + extra ELSE k]>>
RECURSIVE OutName(_, _, _)
OutName(out, pat, name) ==
  IF out = <<>> THEN <<>>
  ELSE (IF Head(out).k = "lit" THEN <<Head(out).v>> ELSE Cap(pat, name, Head(out).n)) \o OutName(Tail(out), pat, name)

MatchFlags ==
  IF T.kind # "match" THEN {}
  ELSE IF MatchOK(T.pat, T.name)
         THEN (IF T.matched = 0 THEN {"rule-should-match"}
               ELSE IF T.obs # OutName(T.out, T.pat, T.name) THEN {"aggregate-name"} ELSE {})
         ELSE (IF T.matched = 1 THEN {"rule-should-not-match"} ELSE {})

TSpec == TInit /\ [][TStep]_tvars
Report == IF l = Len(Ev) + 1
            THEN /\ \A f \in flags \cup MatchFlags : PrintT(<<"F", tid, f>>)
                 /\ PrintT(<<"DONE", tid>>)
            ELSE TRUE
=============================================================================
