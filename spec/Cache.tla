------------------------------- MODULE Cache -------------------------------
(* carbon.cache._MetricCache with its six DrainStrategy classes, a storing thread  *)
(* (reactor) and a draining thread (writer), at the atomicity the code has:        *)
(*   Store      = store(): everything inside `with self.lock`                      *)
(*   W_Empty    = drain_metric(): the unlocked `if not self` test                  *)
(*   W_Choose   = strategy.choose_item() under the lock                            *)
(*   W_Pop      = pop(): remove the metric and adjust size under the lock          *)
(* The lock is released between W_Choose and W_Pop, so Store can fall in between.  *)
(* The dict is modelled with its insertion order (keyseq) because naive / sorted / *)
(* max / timesorted tie-breaking depends on it.  Operations of the code that can   *)
(* raise (list.remove of an absent element, dict.pop of an absent key, a generator *)
(* spinning on an empty snapshot) are explicit outcomes recorded in `failures`.    *)
EXTENDS Integers, Sequences, FiniteSets, SequencesExt

CONSTANTS Metrics,      \* metric names (small integers)
          Tss,          \* timestamps (small integers)
          Strategy,     \* "naive" | "max" | "sorted" | "timesorted" | "random" | "bucketmax"
          HardC,        \* floor of the hard limit: a new timestamp is refused when size + 1 > HardC (0 = unbounded)
          Lag,          \* MIN_TIMESTAMP_LAG (timesorted)
          MaxStores, MaxDrains, MaxNow,
          History       \* FALSE: no drain history and no drain bound (liveness runs)

VARIABLES keyseq,       \* the dict's keys in insertion order 
          pts,          \* set of <<metric, ts, id>>: the datapoints held
          size,         \* the cache's size counter
          queue,        \* generator strategies: what is left of the current snapshot
          buckets,      \* bucketmax: buckets[k] = metrics holding k points, in arrival order
          pcW, chosenM, \* writer thread
          now,
          nstores, ndrains,
          \* history / ghost variables
          accepted, superseded, refused, overflow, drained, failures, latest,
          passCnt, maxViol, lagViol, emptyViol,
          lastArg       \* <<metric, ts>> of the last Store (lets replays recover action parameters)

vars == <<keyseq, pts, size, queue, buckets, pcW, chosenM, now, nstores, ndrains,
          accepted, superseded, refused, overflow, drained, failures, latest,
          passCnt, maxViol, lagViol, emptyViol, lastArg>>

Keys == ToSet(keyseq)
Points(m) == {p \in pts : p[1] = m}
Count(m) == Cardinality(Points(m))
Has(m, ts) == \E p \in pts : p[1] = m /\ p[2] = ts
Oldest(m) == CHOOSE t \in {p[2] : p \in Points(m)} : \A p \in Points(m) : t <= p[2]
MaxCount == IF keyseq = <<>> THEN 0
            ELSE CHOOSE c \in {Count(m) : m \in Keys} : \A m \in Keys : Count(m) <= c
Without(s, m) == SelectSeq(s, LAMBDA x : x # m)
Concat(ss) == FlattenSeq(ss)

\* stable sort of a sequence of metrics by an integer key in lo..hi, ascending / descending
SortAsc(s, K(_), lo, hi) == Concat([i \in 1..(hi - lo + 1) |-> SelectSeq(s, LAMBDA x : K(x) = lo + i - 1)])
SortDesc(s, K(_), lo, hi) == Concat([i \in 1..(hi - lo + 1) |-> SelectSeq(s, LAMBDA x : K(x) = hi - i + 1)])

MaxTs == CHOOSE t \in Tss : \A u \in Tss : u <= t
MinTs == CHOOSE t \in Tss : \A u \in Tss : t <= u
NPts == Cardinality(Metrics) * Cardinality(Tss)

Init == /\ keyseq = <<>> /\ pts = {} /\ size = 0
        /\ queue = <<>> /\ buckets = <<>>
        /\ pcW = "idle" /\ chosenM = 0
        /\ now = 0 /\ nstores = 0 /\ ndrains = 0
        /\ accepted = {} /\ superseded = {} /\ refused = {} /\ overflow = 0
        /\ drained = <<>> /\ failures = {} /\ latest = <<>>
        /\ passCnt = [m \in Metrics |-> 0]
        /\ maxViol = FALSE /\ lagViol = FALSE /\ emptyViol = FALSE
        /\ lastArg = <<0, 0>>

-----------------------------------------------------------------------------
(* store(metric, (ts, value)) -- the value is the unique id of the call *)

\* BucketMaxStrategy.store(metric) after the point was inserted; nr = new count
BucketStore(m, nr) ==
  LET b1 == IF nr > Len(buckets) THEN buckets \o [i \in 1..(nr - Len(buckets)) |-> <<>>] ELSE buckets
  IN  IF nr > 1 /\ m \notin ToSet(b1[nr - 1])
        THEN <<b1, "remove">>                         \* list.remove(x): x not in list
        ELSE LET b2 == IF nr > 1 THEN [b1 EXCEPT ![nr - 1] = Without(@, m)] ELSE b1
             IN <<[b2 EXCEPT ![nr] = Append(@, m)], "ok">>

Store(m, ts) ==
  /\ nstores < MaxStores
  /\ lastArg' = <<m, ts>>
  /\ LET id == nstores + 1 IN
     /\ nstores' = id
     /\ IF Has(m, ts)
          THEN \* duplicate timestamp: overwrite, size unchanged, accepted even when full
               LET old == CHOOSE p \in pts : p[1] = m /\ p[2] = ts IN
               /\ pts' = (pts \ {old}) \cup {<<m, ts, id>>}
               /\ superseded' = superseded \cup {old[3]}
               /\ accepted' = accepted \cup {id}
               /\ latest' = Append(latest, <<m, ts, id>>)
               /\ UNCHANGED <<keyseq, size, buckets, refused, overflow, failures>>
          ELSE IF HardC > 0 /\ size + 1 > HardC
          THEN \* refused: overflow signalled, nothing else changes (F1 repaired: the metric
               \* is looked up without creating its entry)
               /\ refused' = refused \cup {id}
               /\ overflow' = overflow + 1
               /\ UNCHANGED <<keyseq, pts, size, buckets, accepted, superseded, failures, latest>>
          ELSE /\ pts' = pts \cup {<<m, ts, id>>}
               /\ keyseq' = IF m \in Keys THEN keyseq ELSE Append(keyseq, m)
               /\ size' = size + 1
               /\ accepted' = accepted \cup {id}
               /\ latest' = Append(latest, <<m, ts, id>>)
               /\ IF Strategy = "bucketmax"
                    THEN LET r == BucketStore(m, Count(m) + 1) IN
                         /\ buckets' = r[1]
                         /\ failures' = IF r[2] = "ok" THEN failures ELSE failures \cup {"store:ValueError"}
                    ELSE UNCHANGED <<buckets, failures>>
               /\ UNCHANGED <<superseded, refused, overflow>>
  /\ UNCHANGED <<queue, pcW, chosenM, now, ndrains, drained, passCnt, maxViol, lagViol, emptyViol>>

-----------------------------------------------------------------------------
(* drain_metric() *)

Ret(m, batch) == IF History THEN /\ drained' = Append(drained, <<m, batch>>)
                                 /\ ndrains' = ndrains + 1
                 ELSE UNCHANGED <<drained, ndrains>>

W_Empty ==
  /\ pcW = "idle" /\ (History => ndrains < MaxDrains)
  /\ IF keyseq = <<>>
       THEN /\ Ret(0, {}) /\ UNCHANGED pcW
       ELSE /\ pcW' = "checked" /\ UNCHANGED <<drained, ndrains>>
  /\ UNCHANGED <<keyseq, pts, size, queue, buckets, chosenM, now, nstores,
                 accepted, superseded, refused, overflow, failures, latest,
                 passCnt, maxViol, lagViol, emptyViol, lastArg>>

\* the snapshot a generator strategy takes when its previous one is used up
Snapshot ==
  CASE Strategy = "naive" -> keyseq
    [] Strategy = "sorted" -> SortAsc(keyseq, Count, 0, NPts)
    [] Strategy = "timesorted" ->
         LET withPts == SelectSeq(keyseq, LAMBDA m : Points(m) # {})
             srt == SortDesc(withPts, Oldest, MinTs, MaxTs)
         IN IF Lag > 0 THEN SelectSeq(srt, LAMBDA m : now - Oldest(m) > Lag) ELSE srt
    [] OTHER -> <<>>

\* <<chosen metric or 0, queue', buckets', failure or "ok", new pass?>>
ChooseF ==
  CASE Strategy \in {"naive", "sorted", "timesorted"} ->
         LET fresh == queue = <<>>
             q == IF fresh THEN Snapshot ELSE queue
         IN IF q = <<>>
              THEN IF Strategy = "timesorted" THEN {<<0, <<>>, buckets, "ok", fresh>>}
                   ELSE {<<0, <<>>, buckets, "spin", fresh>>}      \* `while True` over an empty snapshot
              ELSE {<<Last(q), Front(q), buckets, "ok", fresh>>}
    [] Strategy = "max" ->
         LET first == CHOOSE i \in 1..Len(keyseq) :
                         /\ Count(keyseq[i]) = MaxCount
                         /\ \A j \in 1..(i - 1) : Count(keyseq[j]) # MaxCount
         IN {<<keyseq[first], queue, buckets, "ok", FALSE>>}
    [] Strategy = "random" -> {<<m, queue, buckets, "ok", FALSE>> : m \in Keys}
    [] Strategy = "bucketmax" ->
         LET nonempty == {i \in 1..Len(buckets) : buckets[i] # <<>>} IN
         IF nonempty = {} THEN {<<0, queue, <<>>, "ok", FALSE>>}
         ELSE LET top == CHOOSE i \in nonempty : \A j \in nonempty : j <= i
                  b1 == SubSeq(buckets, 1, top)
              IN {<<Head(b1[top]), queue, [b1 EXCEPT ![top] = Tail(@)], "ok", FALSE>>}

W_Choose ==
  /\ pcW = "checked"
  /\ \E c \in ChooseF :
       /\ queue' = c[2] /\ buckets' = c[3]
       /\ failures' = IF c[4] = "ok" THEN failures ELSE failures \cup {"choose:spin"}
       /\ passCnt' = IF c[5] THEN [m \in Metrics |-> 0] ELSE passCnt
       /\ IF c[1] = 0
            THEN /\ Ret(0, {}) /\ pcW' = "idle" /\ chosenM' = 0
                 /\ UNCHANGED <<maxViol, lagViol>>
            ELSE /\ pcW' = "chosen" /\ chosenM' = c[1]
                 /\ maxViol' = (maxViol \/ (Strategy \in {"max", "bucketmax"} /\ failures = {}
                                            /\ Count(c[1]) # MaxCount))
                 /\ lagViol' = (lagViol \/ (Strategy = "timesorted" /\ Lag > 0
                                            /\ ~(Points(c[1]) # {} /\ now - Oldest(c[1]) > Lag)))
                 /\ UNCHANGED <<drained, ndrains>>
  /\ UNCHANGED <<keyseq, pts, size, now, nstores, accepted, superseded, refused, overflow,
                 latest, emptyViol, lastArg>>

W_Pop ==
  /\ pcW = "chosen"
  /\ LET m == chosenM IN
     IF m \notin Keys
       THEN /\ failures' = failures \cup {"pop:KeyError"}
            /\ Ret(m, {})
            /\ UNCHANGED <<keyseq, pts, size, passCnt, emptyViol>>
       ELSE /\ keyseq' = Without(keyseq, m)
            /\ pts' = pts \ Points(m)
            /\ size' = size - Count(m)
            /\ Ret(m, {<<p[2], p[3]>> : p \in Points(m)})
            /\ passCnt' = [passCnt EXCEPT ![m] = @ + 1]
            /\ emptyViol' = (emptyViol \/ (Points(m) = {} /\ pts # {}))
            /\ UNCHANGED failures
  /\ pcW' = "idle" /\ chosenM' = 0
  /\ UNCHANGED <<queue, buckets, now, nstores, accepted, superseded, refused, overflow,
                 latest, maxViol, lagViol, lastArg>>

Tick ==
  /\ Strategy = "timesorted" /\ Lag > 0
  /\ now < MaxNow
  /\ now' = now + 1
  /\ UNCHANGED <<keyseq, pts, size, queue, buckets, pcW, chosenM, nstores, ndrains,
                 accepted, superseded, refused, overflow, drained, failures, latest,
                 passCnt, maxViol, lagViol, emptyViol, lastArg>>

Next == \/ \E m \in Metrics, ts \in Tss : Store(m, ts)
        \/ W_Empty \/ W_Choose \/ W_Pop
        \/ Tick

Spec == Init /\ [][Next]_vars

-----------------------------------------------------------------------------
(* Properties *)

DrainedIds == UNION {{x[2] : x \in drained[i][2]} : i \in 1..Len(drained)}
HeldIds == {p[3] : p \in pts}

\* C02: every accepted datapoint is held, superseded by a later write, or in exactly one batch
Conservation ==
  /\ accepted = HeldIds \cup superseded \cup DrainedIds
  /\ HeldIds \cap superseded = {} /\ HeldIds \cap DrainedIds = {} /\ superseded \cap DrainedIds = {}
  /\ \A i, j \in 1..Len(drained) : i # j =>
        {x[2] : x \in drained[i][2]} \cap {x[2] : x \in drained[j][2]} = {}
  /\ accepted \cap refused = {} /\ Cardinality(accepted \cup refused) = nstores

\* C02: the value held for a key is the most recent write of that key
LastWriteWins ==
  \A p \in pts :
    LET idx == {i \in 1..Len(latest) : latest[i][1] = p[1] /\ latest[i][2] = p[2]}
    IN idx # {} /\ latest[CHOOSE i \in idx : \A j \in idx : j <= i][3] = p[3]

\* C02: no timestamp twice in a batch
BatchNoDupTs == \A i \in 1..Len(drained) :
                  \A x, y \in drained[i][2] : x[1] = y[1] => x = y

\* C02: the size counter is exact (all locked regions are atomic here)
SizeExact == size = Cardinality(pts)

\* C10
Bound == HardC > 0 => size <= HardC
RefusalSignalled == overflow = Cardinality(refused)
RefusalNoEffect ==
  [][refused' # refused => /\ pts' = pts /\ size' = size /\ overflow' = overflow + 1
                           /\ Len(keyseq') = Len(keyseq)]_vars

\* C17
NeverFails == failures = {}
NeverFailsModuloF9 == failures \subseteq (IF Strategy = "bucketmax" THEN {"store:ValueError"} ELSE {})
NoEmptyBatch == ~emptyViol
FairPass == Strategy \in {"naive", "sorted", "timesorted"} => \A m \in Metrics : passCnt[m] <= 1
MaxFirst == ~maxViol
LagRespected == ~lagViol
\* with no new input, repeated draining empties the cache
InputClosed == nstores = MaxStores
DrainsEverything == [](InputClosed => <>(pts = {}))
LiveSpec == Spec /\ WF_vars(W_Empty) /\ WF_vars(W_Choose) /\ WF_vars(W_Pop) /\ WF_vars(Tick)

TypeOK == /\ size \in Int /\ pcW \in {"idle", "checked", "chosen"}
          /\ Keys \subseteq Metrics /\ Len(keyseq) = Cardinality(Keys)
=============================================================================
