------------------------------- MODULE Listen -------------------------------
(* Admission of client connections on the metric listeners (carbon.protocols):       *)
(*   CarbonReceiverFactory.buildProtocol  - refuses a connection when                   *)
(*       len(state.connectedMetricReceiverProtocols) >= MAX_RECEIVER_CONNECTIONS,       *)
(*   MetricReceiver.connectionMade / connectionLost - register / unregister and call   *)
(*   checkIfAcceptingConnections(), which pauses every listening port while the limit   *)
(*   is reached and resumes them when a connection goes away.                           *)
(* Mode "model": TLC explores Connect / Disconnect over NC client ids and NP ports.      *)
(* Mode "trace": recorded runs of the real factory / receivers with stand-in ports are   *)
(* judged event by event (re-synchronising on the observed state).                       *)
EXTENDS Integers, Sequences, FiniteSets, Json, IOUtils, TLC, TLCExt

CONSTANTS Mode, NC, NP, Max

VARIABLES conns, paused, refused, tid, l, flags
vars == <<conns, paused, refused, tid, l, flags>>

Clients == 1..NC
Ports == 1..NP

\* checkIfAcceptingConnections()
Check(cs) == [p \in Ports |-> Cardinality(cs) >= Max]

\* buildProtocol + connectionMade: <<conns', paused', accepted>>
ConnectF(cs, ps, c) ==
  IF Cardinality(cs) < Max THEN <<cs \cup {c}, Check(cs \cup {c}), TRUE>>
  ELSE <<cs, ps, FALSE>>
DisconnectF(cs, ps, c) == <<cs \ {c}, Check(cs \ {c})>>

Traces == IF Mode = "trace" THEN JsonDeserialize(IOEnv.TRACE_FILE) ELSE <<>>

Init == /\ conns = {} /\ paused = [p \in Ports |-> FALSE] /\ refused = 0 /\ l = 1 /\ flags = {}
        /\ IF Mode = "model" THEN tid = 0 ELSE tid \in 1..Len(Traces)

Connect(c) ==
  /\ Mode = "model" /\ c \notin conns
  /\ LET r == ConnectF(conns, paused, c) IN
       /\ conns' = r[1] /\ paused' = r[2]
       /\ refused' = IF r[3] THEN 0 ELSE 1           \* (whether the last attempt was refused)
  /\ UNCHANGED <<tid, l, flags>>
Disconnect(c) ==
  /\ Mode = "model" /\ c \in conns
  /\ LET r == DisconnectF(conns, paused, c) IN conns' = r[1] /\ paused' = r[2]
  /\ refused' = 0
  /\ UNCHANGED <<tid, l, flags>>

\* trace mode: event [e |-> "connect"/"disconnect", c, accepted (0/1), n (receivers registered), paused (0/1 per port)]
Ev == Traces[tid].ev
TStep ==
  /\ Mode = "trace" /\ l <= Len(Ev)
  /\ LET e == Ev[l]
         obsP == [p \in Ports |-> e.paused[p] = 1]
         exp == IF e.e = "connect" THEN ConnectF(conns, paused, e.c) ELSE <<DisconnectF(conns, paused, e.c)[1], DisconnectF(conns, paused, e.c)[2], TRUE>>
         n == Cardinality(conns) + (IF e.e = "connect" /\ e.accepted = 1 THEN 1 ELSE 0) - (IF e.e = "disconnect" THEN 1 ELSE 0)
     IN /\ flags' = flags
               \cup (IF e.e = "connect" /\ (e.accepted = 1) # exp[3] THEN {"admission"} ELSE {})
               \cup (IF e.n > Max THEN {"over-limit"} ELSE {})
               \cup (IF \E p \in Ports : obsP[p] # (e.n >= Max) THEN {"ports"} ELSE {})
               \cup (IF e.n # Cardinality(exp[1]) THEN {"drift:count"} ELSE {})
        \* re-synchronise on what was observed: the registered receivers are ids 1..n abstractly
        /\ conns' = IF e.e = "connect" THEN (IF e.accepted = 1 THEN conns \cup {e.c} ELSE conns) ELSE conns \ {e.c}
        /\ paused' = obsP
  /\ l' = l + 1 /\ UNCHANGED <<tid, refused>>

Next == (\E c \in Clients : Connect(c) \/ Disconnect(c)) \/ TStep
Spec == Init /\ [][Next]_vars

-----------------------------------------------------------------------------
\* never more receivers than the limit; the ports are paused exactly while the limit is reached - in particular
\* a port paused at the limit listens again as soon as one connection has gone
WithinLimit == Cardinality(conns) <= Max
PortsFollow == \A p \in Ports : paused[p] <=> (Cardinality(conns) >= Max)
RefusedOnlyAtLimit == refused = 1 => Cardinality(conns) >= Max
TypeOK == conns \subseteq Clients /\ refused \in {0, 1}

Report == IF Mode = "trace" /\ l = Len(Ev) + 1
            THEN /\ \A f \in flags : PrintT(<<"F", tid, f>>)
                 /\ PrintT(<<"DONE", tid>>)
            ELSE TRUE
=============================================================================
