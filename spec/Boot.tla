-------------------------------- MODULE Boot --------------------------------
(* What a carbon daemon derives from carbon.conf at start-up and how carbon.service wires it, as a    *)
(* decision table (the start-up half of C10, C12, C20, C08, C13, C05/C06, C14, C17).  A case is what    *)
(* was configured (program, instance sections already merged by the harness into `want`) and what the  *)
(* real start-up code - Options.postOptions() + create<Daemon>Service() in a child process - reports.  *)
(* Numbers that may be fractional travel multiplied by 100 (limits) or by 60 (rates per second).        *)
EXTENDS Integers, Sequences, FiniteSets, Json, IOUtils, TLC, TLCExt

VARIABLES tid
vars == <<tid>>
Cases == JsonDeserialize(IOEnv.TRACE_FILE)
C == Cases[tid]
W == C.want
G == C.got

CacheLike == C.program \in {"carbon-cache", "carbon-aggregator-cache"}
RelayLike == C.program \in {"carbon-relay", "carbon-aggregator"}
ExpectedPipeline ==
  CASE C.program = "carbon-cache" -> <<"write">>
    [] C.program = "carbon-relay" -> <<"relay">>
    [] C.program = "carbon-aggregator" -> <<"rewrite:pre", "aggregate", "rewrite:post", "relay">>
    [] OTHER -> <<"rewrite:pre", "aggregate", "rewrite:post", "write">>
ExpectedGenerated == IF C.program \in {"carbon-cache", "carbon-aggregator-cache"} THEN <<"write">> ELSE <<"relay">>

Flags ==
     \* cache limits: MAX_CACHE_SIZE as configured (0 = unlimited), hard limit 105 % under flow control, low watermark 95 %
     (IF CacheLike /\ W.max > 0 /\ (G.max100 # 100 * W.max \/ G.hard100 # (IF W.flow = 1 THEN 105 ELSE 100) * W.max \/ G.low100 # 95 * W.max)
        THEN {"cache-limits"} ELSE {})
\cup (IF CacheLike /\ W.max = 0 /\ (G.max100 # -1 \/ G.hard100 # -1 \/ G.low100 # -1) THEN {"cache-limits"} ELSE {})
\cup (IF G.flow # W.flow THEN {"flow-control-setting"} ELSE {})
     \* rate limits of the writer: create bucket holds a minute's worth and refills at 1/60 of it per second; update bucket
     \* capacity = rate = MAX_UPDATES_PER_SECOND (0 = unlimited = no bucket)
\cup (IF CacheLike /\ (G.createcap # W.creates \/ G.createrate60 # W.creates) THEN {"create-limit"} ELSE {})
\cup (IF CacheLike /\ (G.updatecap # W.updates \/ G.updaterate60 # 60 * W.updates) THEN {"update-limit"} ELSE {})
     \* admission
\cup (IF G.res # W.res \/ G.res_after # W.res THEN {"timestamp-resolution"} ELSE {})
\cup (IF (G.lists = 1) # (W.whitelist = 1) THEN {"lists-not-loaded"} ELSE {})
\cup (IF W.whitelist = 1 /\ (G.blrules # W.blrules \/ G.wlrules # W.wlrules) THEN {"lists-not-loaded"} ELSE {})
     \* unpickler, forwarding, lag, strategy
\cup (IF G.insecure # W.insecure THEN {"unpickler-setting"} ELSE {})
\cup (IF G.forward # W.forward THEN {"forward-all-setting"} ELSE {})
\cup (IF G.lag100 # W.lag100 THEN {"lag-setting"} ELSE {})
     \* pipelines
\cup (IF G.pipeline # ExpectedPipeline \/ G.generated # ExpectedGenerated \/ G.same_list = 1 THEN {"pipeline"} ELSE {})
     \* relay side: destinations in configured order, replication settings untouched, queue limits
\cup (IF RelayLike /\ G.dests # W.dests THEN {"destinations"} ELSE {})
\cup (IF RelayLike /\ (G.rf # W.rf \/ G.diverse # W.diverse) THEN {"replication-setting"} ELSE {})
\cup (IF RelayLike /\ (G.qlow100 # 80 * W.maxq \/ G.qhard100 # (IF W.flow = 1 THEN 125 ELSE 100) * W.maxq) THEN {"queue-limits"} ELSE {})
\cup (IF G.mpm # W.mpm \/ G.picklemax # W.picklemax THEN {"message-size-settings"} ELSE {})
     \* flow-control wiring: cacheFull pauses the receivers at once, cacheSpaceAvailable resumes them
\cup (IF W.flow = 1 /\ (G.full_pauses # 1 \/ G.space_resumes # 1) THEN {"flow-wiring"} ELSE {})
     \* storage location (string comparison done by the harness)
\cup (IF G.datadir_ok # 1 THEN {"data-dir"} ELSE {})
\cup (IF G.booted # 1 THEN {"did-not-start"} ELSE {})

Init == tid \in 1..Len(Cases)
Next == UNCHANGED tid
Spec == Init /\ [][Next]_vars
Report == /\ \A f \in Flags : PrintT(<<"F", tid, f>>)
          /\ PrintT(<<"DONE", tid>>)
=============================================================================
