------------------------------ MODULE TagQueue ------------------------------
(* carbon.writer.TagQueue: the writer registers newly created series (add) and, for every   *)
(* update_interval-th write, already known ones (update) for tagging; the tag writer thread   *)
(* takes batches: pending additions first, then updates, each in arrival order.  Both queues  *)
(* hold at most MaxSize entries (0 = unbounded); an entry that does not fit is dropped -      *)
(* registering must never hold the writer up.                                                  *)
(* Mode "model": TLC explores Add / Update / GetBatch; mode "trace": recorded calls on the     *)
(* real class are judged one by one.                                                            *)
EXTENDS Integers, Sequences, FiniteSets, Json, IOUtils, TLC, TLCExt

CONSTANTS Mode, Metrics, MaxSize, Interval, MaxOps, MaxBatch

VARIABLES addq, updq, counter, nops, lastBatch, tid, l, flags
vars == <<addq, updq, counter, nops, lastBatch, tid, l, flags>>

Fits(q) == MaxSize = 0 \/ Len(q) < MaxSize
AddF(aq, m) == IF Fits(aq) THEN Append(aq, m) ELSE aq
\* update_counter = update_counter % update_interval + 1; the entry is queued when the counter is 1
UpdateF(uq, c, m) == LET c2 == (c % Interval) + 1 IN <<IF c2 = 1 /\ Fits(uq) THEN Append(uq, m) ELSE uq, c2>>
Min2(a, b) == IF a <= b THEN a ELSE b
BatchF(aq, uq, n) ==
  LET na == Min2(n, Len(aq))
      nu == Min2(n - na, Len(uq))
  IN <<SubSeq(aq, 1, na) \o SubSeq(uq, 1, nu), SubSeq(aq, na + 1, Len(aq)), SubSeq(uq, nu + 1, Len(uq))>>

Traces == IF Mode = "trace" THEN JsonDeserialize(IOEnv.TRACE_FILE) ELSE <<>>
Init == /\ addq = <<>> /\ updq = <<>> /\ counter = 0 /\ nops = 0 /\ lastBatch = <<>> /\ l = 1 /\ flags = {}
        /\ IF Mode = "model" THEN tid = 0 ELSE tid \in 1..Len(Traces)

Add(m) == /\ Mode = "model" /\ nops < MaxOps /\ addq' = AddF(addq, m) /\ nops' = nops + 1
          /\ UNCHANGED <<updq, counter, lastBatch, tid, l, flags>>
Update(m) == /\ Mode = "model" /\ nops < MaxOps
             /\ LET r == UpdateF(updq, counter, m) IN updq' = r[1] /\ counter' = r[2]
             /\ nops' = nops + 1 /\ UNCHANGED <<addq, lastBatch, tid, l, flags>>
GetBatch(n) == /\ Mode = "model" /\ nops < MaxOps
               /\ LET r == BatchF(addq, updq, n) IN lastBatch' = r[1] /\ addq' = r[2] /\ updq' = r[3]
               /\ nops' = nops + 1 /\ UNCHANGED <<counter, tid, l, flags>>

\* trace mode: [op |-> "add"/"update"/"batch", m, n, got (sequence), na, nu (queue lengths afterwards)]
Ev == Traces[tid].ev
TStep ==
  /\ Mode = "trace" /\ l <= Len(Ev)
  /\ LET e == Ev[l] IN
       CASE e.op = "add" ->
              /\ addq' = AddF(addq, e.m) /\ UNCHANGED <<updq, counter, lastBatch>>
              /\ flags' = flags \cup (IF e.na # Len(AddF(addq, e.m)) \/ e.nu # Len(updq) THEN {"queue-length"} ELSE {})
         [] e.op = "update" ->
              /\ LET r == UpdateF(updq, counter, e.m) IN updq' = r[1] /\ counter' = r[2]
              /\ UNCHANGED <<addq, lastBatch>>
              /\ flags' = flags \cup (IF e.nu # Len(UpdateF(updq, counter, e.m)[1]) \/ e.na # Len(addq) THEN {"queue-length"} ELSE {})
         [] OTHER ->
              /\ LET r == BatchF(addq, updq, e.n) IN
                   /\ lastBatch' = r[1] /\ addq' = r[2] /\ updq' = r[3]
                   /\ flags' = flags \cup (IF e.got # r[1] THEN {"batch"} ELSE {})
                                    \cup (IF e.na # Len(r[2]) \/ e.nu # Len(r[3]) THEN {"queue-length"} ELSE {})
              /\ UNCHANGED counter
  /\ l' = l + 1 /\ UNCHANGED <<tid, nops>>

Next == (\E m \in Metrics : Add(m) \/ Update(m)) \/ (\E n \in 1..MaxBatch : GetBatch(n)) \/ TStep
Spec == Init /\ [][Next]_vars

\* the queues stay within their bound; a batch never exceeds the size asked for and additions come first
Bounded == MaxSize = 0 \/ (Len(addq) <= MaxSize /\ Len(updq) <= MaxSize)
BatchShape == Len(lastBatch) <= MaxBatch
CounterRange == counter \in 0..Interval
\* an addition still queued is handed out before any update (additions first)
AddsFirst == [][\A n \in 1..MaxBatch : (lastBatch' # lastBatch /\ Len(addq') > 0) => Len(lastBatch') >= 1]_vars

Report == IF Mode = "trace" /\ l = Len(Ev) + 1
            THEN /\ \A f \in flags : PrintT(<<"F", tid, f>>)
                 /\ PrintT(<<"DONE", tid>>)
            ELSE TRUE
=============================================================================
