---------------------------- MODULE Writer_Trace ----------------------------
(* Trace validation of recorded writer executions against Writer.tla (the            *)
(* implementation-shaped program-counter machine).  Logged events are matched with    *)
(* the corresponding action and its logged outcome; the writer's internal steps       *)
(* (loop tests, create-loop bookkeeping, choose, sleeps) are silent actions TLC        *)
(* inserts.  A trace is accepted iff some behaviour of the specification consumes      *)
(* every event; a rejection means the code no longer follows the model (drift) - the   *)
(* property verdict is WriterLin's.                                                    *)
EXTENDS Writer, Json, IOUtils, TLC, TLCExt

VARIABLES tid, l
tvars == <<vars, tid, l>>

Traces == JsonDeserialize(IOEnv.TRACE_FILE)
T == Traces[tid]
Ev == T.ev
SeqSet(sq) == {<<sq[i][1], sq[i][2]>> : i \in 1..Len(sq)}

TInit == /\ tid \in 1..Len(Traces) /\ l = 1
         /\ pts = {} /\ keys = {} /\ newm = <<>>
         /\ exists = {T.pre[i] : i \in 1..Len(T.pre)} /\ calls = <<>> /\ faults = MaxFaults
         /\ cnt = [creates |-> 0, errors |-> 0, dropped |-> 0, committed |-> 0, logerr |-> 0]
         /\ fate = [i \in Ids |-> "none"] /\ pre = {}
         /\ pc = "test" /\ cur = 0 /\ batch = {} /\ final = FALSE
         /\ running = TRUE /\ phase = "up" /\ lagOn = (T.lag > 0)
         /\ nst = 0

IsEv(k) == l <= Len(Ev) /\ Ev[l].k = k
Consume == l' = l + 1 /\ UNCHANGED tid
Silent == UNCHANGED <<tid, l>>

EvStored == /\ IsEv("stored") /\ Ev[l].id = nst + 1
            /\ Store(Ev[l].m, Ev[l].ts) /\ Consume
EvDrained == /\ IsEv("drained")
             /\ IF Ev[l].m = 0
                  THEN pc = "choose" /\ W_Choose /\ cur' = 0
                  ELSE pc = "pop" /\ cur = Ev[l].m /\ W_Pop /\ batch' = SeqSet(Ev[l].batch)
             /\ Consume
LastCall == calls'[Len(calls')]
EvDb == /\ IsEv("db")
        /\ LET e == Ev[l] IN
           \/ /\ e.op = "exists" /\ cur = e.m
              /\ (W_Exists1 \/ W_Exists2)
              /\ LastCall.ok = (e.ok = 1)
              /\ (e.ok = 1 => (e.res = 1) = (e.m \in exists))
           \/ /\ e.op = "create" /\ cur = e.m /\ W_Create /\ LastCall.ok = (e.ok = 1)
           \/ /\ e.op = "write" /\ cur = e.m /\ W_Write /\ LastCall.ok = (e.ok = 1)
              /\ SeqSet(e.pts) = batch
        /\ Consume
EvStop == \/ IsEv("stopBefore") /\ StopBefore /\ Consume
          \/ IsEv("stopDuring") /\ StopDuring /\ Consume
EvExit == IsEv("exit") /\ pc = "exited" /\ UNCHANGED vars /\ Consume
\* counter snapshots are taken when the writer is between two steps: they must agree
EvCnt == /\ IsEv("cnt")
         /\ LET e == Ev[l] IN e.creates = cnt.creates /\ e.dropped = cnt.dropped /\ e.committed = cnt.committed
                              /\ e.errors = cnt.errors
         /\ UNCHANGED vars /\ Consume
EvEnd == IsEv("end") /\ UNCHANGED vars /\ Consume

SilentStep == /\ (W_Test \/ W_PassTop \/ W_CreateLoop \/ W_Sleep \/ (W_Choose /\ pc' = "pop"))
              /\ Silent

TNext == EvStored \/ EvDrained \/ EvDb \/ EvStop \/ EvExit \/ EvCnt \/ EvEnd \/ SilentStep
TSpec == TInit /\ [][TNext]_tvars

Report == IF l = Len(Ev) + 1 THEN PrintT(<<"DONE", tid>>) ELSE TRUE
Progress == PrintT(<<"AT", tid, l>>)
=============================================================================
