-------------------------------- MODULE Tags --------------------------------
(* TaggedSeries.parse / parse_carbon / parse_openmetrics / validateTagAndValue / sanitize_name_as_tag_value *)
(* / format (lib/carbon/util.py) over sequences of character codes (C18).               *)
(* Mode "model": TLC enumerates every string up to MaxLen over Alphabet and checks       *)
(* idempotence, and every permutation of the tag list of every valid series built from   *)
(* Names/Keys/Vals and checks that all of them normalise to the one canonical form.      *)
(* Mode "trace": judges recorded results of the real parser / cache / relay.             *)
EXTENDS Integers, Sequences, FiniteSets, SequencesExt, Json, IOUtils, TLC, TLCExt

CONSTANTS Mode, MaxLen, Alphabet, Names, Keys, Vals, MaxTags

Semi == 59  Eq == 61  Tilde == 126  Bang == 33  Caret == 94  LBr == 123  RBr == 125
Quote == 34  Bsl == 92  Comma == 44  Colon == 58
NameKey == <<110, 97, 109, 101>>                       \* "name"

VARIABLES s, tid
vars == <<s, tid>>

ToSetS(x) == {x[i] : i \in 1..Len(x)}
RECURSIVE Flat(_)
Flat(ss) == IF ss = <<>> THEN <<>> ELSE Head(ss) \o Flat(Tail(ss))
RECURSIVE SplitOn(_, _, _, _)
SplitOn(x, c, cur, acc) ==
  IF x = <<>> THEN Append(acc, cur)
  ELSE IF Head(x) = c THEN SplitOn(Tail(x), c, <<>>, Append(acc, cur))
  ELSE SplitOn(Tail(x), c, Append(cur, Head(x)), acc)
Split(x, c) == SplitOn(x, c, <<>>, <<>>)
RECURSIVE LStrip(_, _)
LStrip(x, c) == IF x # <<>> /\ Head(x) = c THEN LStrip(Tail(x), c) ELSE x
Less(a, b) == \E k \in 1..(Len(a) + 1) :
                /\ \A j \in 1..(k - 1) : j <= Len(b) /\ a[j] = b[j]
                /\ (IF k > Len(a) THEN Len(b) >= k ELSE (k <= Len(b) /\ a[k] < b[k]))

\* validateTagAndValue
ValidTV(t, v) == /\ t # <<>> /\ v # <<>>
                 /\ ToSetS(t) \cap {Semi, Bang, Caret, Eq} = {}
                 /\ Semi \notin ToSetS(v)
                 /\ v[1] # Tilde

\* TaggedSeries.format: the name followed by the sorted ';tag=value' strings (without 'name')
Format(nm, pairs) ==
  LET strs == {<<Semi>> \o p[1] \o <<Eq>> \o p[2] : p \in {q \in pairs : q[1] # NameKey}}
  IN nm \o Flat(SetToSortSeq(strs, Less))

\* last value wins for a repeated tag
RECURSIVE Dedup(_, _)
Dedup(ps, acc) == IF ps = <<>> THEN acc
                  ELSE Dedup(Tail(ps), {q \in acc : q[1] # Head(ps)[1]} \cup {Head(ps)})

Fail == <<-1>>
\* parse_carbon(path).path, or Fail when the parser raises
ParseCarbon(x) ==
  LET segs == Split(x, Semi)
      metric == segs[1]
      tsegs == Tail(segs)
      firstEq(g) == IF Eq \in ToSetS(g) THEN CHOOSE i \in 1..Len(g) : g[i] = Eq /\ \A j \in 1..(i - 1) : g[j] # Eq ELSE 0
      pairOf(g) == <<SubSeq(g, 1, firstEq(g) - 1), SubSeq(g, firstEq(g) + 1, Len(g))>>
  IN IF metric = <<>> THEN Fail
     ELSE IF \E i \in 1..Len(tsegs) : firstEq(tsegs[i]) <= 1 \/ ~ValidTV(pairOf(tsegs[i])[1], pairOf(tsegs[i])[2]) THEN Fail
     ELSE IF LStrip(metric, Tilde) = <<>> THEN Fail
     ELSE Format(LStrip(metric, Tilde), Dedup([i \in 1..Len(tsegs) |-> pairOf(tsegs[i])], {}))

\* index of the first occurrence of c in x (0 if none)
First(x, c) == IF c \in ToSetS(x) THEN CHOOSE i \in 1..Len(x) : x[i] = c /\ \A j \in 1..(i - 1) : x[j] # c ELSE 0

(* parse_openmetrics: the loop over  re.match(r'([^=]+)="((?:[\\]["\\]|[^"\\])+)"(:?,|$)', rawtags).
   The tag is everything up to the first '=', which must be followed by '"'; the value is a run of
   ordinary characters and of backslash escapes of '"' and '\', at least one, up to the first
   unescaped '"'; then the end of the text, ',' or ':,'.  OMValue returns [ok, v (unescaped), q
   (index of the closing quote)]. *)
RECURSIVE OMValue(_, _, _)
OMValue(raw, i, acc) ==
  IF i > Len(raw) THEN [ok |-> FALSE, v |-> <<>>, q |-> 0]
  ELSE IF raw[i] = Quote THEN [ok |-> acc # <<>>, v |-> acc, q |-> i]
  ELSE IF raw[i] = Bsl
         THEN (IF i + 1 <= Len(raw) /\ raw[i + 1] \in {Quote, Bsl}
                 THEN OMValue(raw, i + 2, Append(acc, raw[i + 1]))
                 ELSE [ok |-> FALSE, v |-> <<>>, q |-> 0])
  ELSE OMValue(raw, i + 1, Append(acc, raw[i]))
RECURSIVE OMTags(_, _)
OMTags(raw, acc) ==
  IF raw = <<>> THEN [ok |-> TRUE, ps |-> acc]
  ELSE LET e == First(raw, Eq) IN
    IF e <= 1 \/ e + 1 > Len(raw) \/ raw[e + 1] # Quote THEN [ok |-> FALSE, ps |-> <<>>]
    ELSE LET r == OMValue(raw, e + 2, <<>>)
             q == r.q
             nxt == IF ~r.ok THEN 0
                    ELSE IF q = Len(raw) THEN q
                    ELSE IF raw[q + 1] = Comma THEN q + 1
                    ELSE IF raw[q + 1] = Colon /\ q + 2 <= Len(raw) /\ raw[q + 2] = Comma THEN q + 2
                    ELSE 0
         IN IF nxt = 0 \/ ~ValidTV(SubSeq(raw, 1, e - 1), r.v) THEN [ok |-> FALSE, ps |-> <<>>]
            ELSE OMTags(SubSeq(raw, nxt + 1, Len(raw)), Append(acc, <<SubSeq(raw, 1, e - 1), r.v>>))
ParseOM(x) ==
  LET body == SubSeq(x, 1, Len(x) - 1)
      b == First(body, LBr)
      metric == SubSeq(body, 1, b - 1)
      r == OMTags(SubSeq(body, b + 1, Len(body)), <<>>)
  IN IF metric = <<>> \/ ~r.ok \/ LStrip(metric, Tilde) = <<>> THEN Fail
     ELSE Format(LStrip(metric, Tilde), Dedup(r.ps, {}))

\* TaggedSeries.parse: OpenMetrics syntax is recognised by the closing '"}' after a '{' - unless a ';'
\* precedes that '{': the text is then a carbon name whose tag value merely looks like OpenMetrics
IsOM(x) == /\ Len(x) >= 2 /\ x[Len(x) - 1] = Quote /\ x[Len(x)] = RBr /\ LBr \in ToSetS(x)
           /\ Semi \notin ToSetS(SubSeq(x, 1, First(x, LBr) - 1))
Parse(x) == IF IsOM(x) THEN ParseOM(x) ELSE ParseCarbon(x)

\* what is stored / relayed: the normalised name, or the name as received when it is rejected
Stored(x) == IF Parse(x) = Fail THEN x ELSE Parse(x)

\* renderings of a series
RECURSIVE Join(_)
Join(ss) == IF ss = <<>> THEN <<>> ELSE Head(ss) \o Join(Tail(ss))
RenderCarbon(nm, ps) == nm \o Join([i \in 1..Len(ps) |-> <<Semi>> \o ps[i][1] \o <<Eq>> \o ps[i][2]])
Esc(v) == Flat([i \in 1..Len(v) |-> IF v[i] \in {Quote, Bsl} THEN <<Bsl, v[i]>> ELSE <<v[i]>>])
RenderOM(nm, ps) == nm \o <<LBr>> \o Join([i \in 1..Len(ps) |-> (IF i > 1 THEN <<Comma>> ELSE <<>>) \o ps[i][1] \o <<Eq, Quote>> \o Esc(ps[i][2]) \o <<Quote>>]) \o <<RBr>>
Canon(nm, ps) == Format(LStrip(nm, Tilde), {ps[i] : i \in 1..Len(ps)})
ValidSeries(nm, ps) == /\ nm # <<>> /\ LStrip(nm, Tilde) # <<>> /\ Semi \notin ToSetS(nm)
                       /\ \A i \in 1..Len(ps) : ValidTV(ps[i][1], ps[i][2])
                       /\ \A i, j \in 1..Len(ps) : i # j => ps[i][1] # ps[j][1]

Strings == UNION {[1..k -> Alphabet] : k \in 1..MaxLen}
\* sequences (all orders) of up to MaxTags <<key, value>> pairs with distinct keys
TagLists == UNION {{ps \in [1..k -> Keys \X Vals] : \A i, j \in 1..k : i # j => ps[i][1] # ps[j][1]} : k \in 0..MaxTags}

Cases == IF Mode = "trace" THEN JsonDeserialize(IOEnv.TRACE_FILE) ELSE <<>>
Init == CASE Mode = "strings" -> s \in Strings /\ tid = 0
          [] Mode = "series" -> s \in Names \X TagLists /\ tid = 0
          [] OTHER -> tid \in 1..Len(Cases) /\ s = <<>>
Next == UNCHANGED vars
Spec == Init /\ [][Next]_vars

\* C18 on the specification.  Idempotence is stated on what is stored: a text that is at the same
\* time a canonical carbon name and an OpenMetrics rendering that breaks a tag rule is rejected, and
\* stored as received - which is unchanged.
Idempotent == Mode = "strings" => Stored(Stored(s)) = Stored(s)
Canonical == Mode = "series" =>
   (ValidSeries(s[1], s[2]) =>
      /\ ~IsOM(RenderCarbon(s[1], s[2])) => Parse(RenderCarbon(s[1], s[2])) = Canon(s[1], s[2])
      /\ (s[2] # <<>> /\ LBr \notin ToSetS(s[1])) => Parse(RenderOM(s[1], s[2])) = Canon(s[1], s[2])
      /\ Stored(Canon(s[1], s[2])) = Canon(s[1], s[2]))

CaseFlags ==
  LET c == Cases[tid] IN
  IF c.kind = "carbon"
    THEN (IF c.parsed # (IF Parse(c.str) = Fail THEN <<>> ELSE Parse(c.str)) \/ (c.ok = 1) # (Parse(c.str) # Fail)
            THEN {"parse"} ELSE {})
         \cup (IF c.stored # Stored(c.str) THEN {"stored-name"} ELSE {})
         \cup (IF c.relayed # Stored(c.str) THEN {"relayed-name"} ELSE {})
    ELSE \* a series rendered in some order and syntax: must normalise to the canonical form
         LET ps == [i \in 1..Len(c.tags) |-> <<c.tags[i][1], c.tags[i][2]>>] IN
         IF ValidSeries(c.name, ps)
           THEN (IF c.ok = 0 \/ c.parsed # Canon(c.name, ps) THEN {"not-canonical"} ELSE {})
                \cup (IF c.stored # Canon(c.name, ps) THEN {"stored-name"} ELSE {})
                \cup (IF c.again # Canon(c.name, ps) THEN {"not-idempotent"} ELSE {})
           ELSE (IF c.rejectexpected = 1 /\ c.ok = 1 THEN {"accepted-invalid"} ELSE {})
                \cup (IF c.rejectexpected = 1 /\ c.stored # c.str THEN {"rejected-not-raw"} ELSE {})
Report == IF Mode = "trace"
            THEN /\ \A f \in CaseFlags : PrintT(<<"F", tid, f>>)
                 /\ PrintT(<<"DONE", tid>>)
            ELSE TRUE
=============================================================================
