-------------------------------- MODULE Path --------------------------------
(* TaggedSeries.encode / decode and WhisperDatabase._getFilesystemPath /              *)
(* CeresDatabase.encode over a symbol alphabet (C14).  A metric name is a sequence of *)
(* symbols; an encoded path is a sequence of symbols in which Slash is the directory   *)
(* separator.  TLC enumerates EVERY name up to MaxLen (one initial state per name).    *)
EXTENDS Integers, Sequences, FiniteSets, Json, IOUtils, TLC, TLCExt

CONSTANTS MaxLen, Mode     \* Mode: "model" (enumerate names) | "trace" (judge recorded cases)

Dot == 1  Slash == 2  Semi == 3  Eq == 4  Tilde == 5  Under == 6  La == 7  Lb == 8  Uni == 9
LD == 10  LO == 11  LT == 12
TAGGED == 20  HASH3 == 21  HASHFULL == 22  EXT == 23  ROOT == 30
Sym == {Dot, Slash, Semi, Eq, Tilde, Under, La, Lb, Uni}

VARIABLES name, tid
vars == <<name, tid>>

RECURSIVE Flat(_)
Flat(ss) == IF ss = <<>> THEN <<>> ELSE Head(ss) \o Flat(Tail(ss))
ToSetS(s) == {s[i] : i \in 1..Len(s)}
Replace(n, x, by) == Flat([i \in 1..Len(n) |-> IF n[i] = x THEN by ELSE <<n[i]>>])
RECURSIVE LStrip(_, _)
LStrip(n, x) == IF n # <<>> /\ Head(n) = x THEN LStrip(Tail(n), x) ELSE n

\* TaggedSeries.encode(metric, sep, hash_only)
Encode(n, sep, hashOnly) ==
  IF Semi \in ToSetS(n)
    THEN <<TAGGED, sep, HASH3, sep, HASH3, sep>> \o
         (IF hashOnly THEN <<HASHFULL>> ELSE Replace(n, Dot, <<Under, LD, LO, LT, Under>>))
    ELSE LStrip(Replace(n, Dot, <<sep>>), sep)

\* WhisperDatabase._getFilesystemPath: join(data_dir, encode(metric, os.sep, hash) + '.wsp')
\* os.path.join discards data_dir when the second part is absolute
WhisperPath(n, hashOnly) ==
  LET rel == Encode(n, Slash, hashOnly) \o <<EXT>>
  IN IF rel # <<>> /\ Head(rel) = Slash THEN rel ELSE <<ROOT, Slash>> \o rel

\* split at Slash
RECURSIVE Split(_, _, _)
Split(p, cur, acc) ==
  IF p = <<>> THEN Append(acc, cur)
  ELSE IF Head(p) = Slash THEN Split(Tail(p), <<>>, Append(acc, cur))
  ELSE Split(Tail(p), Append(cur, Head(p)), acc)
\* os.path.normpath on the segments: '' and '.' vanish, '..' pops
RECURSIVE Norm(_, _)
Norm(segs, acc) ==
  IF segs = <<>> THEN acc
  ELSE LET s == Head(segs) IN
       IF s = <<>> \/ s = <<Dot>> THEN Norm(Tail(segs), acc)
       ELSE IF s = <<Dot, Dot>> THEN Norm(Tail(segs), IF acc = <<>> THEN <<>> ELSE SubSeq(acc, 1, Len(acc) - 1))
       ELSE Norm(Tail(segs), Append(acc, s))
\* the path lies inside the data directory: normalised it starts with ROOT and goes deeper
Confined(p) == LET ns == Norm(Split(p, <<>>, <<>>), <<>>) IN Len(ns) >= 2 /\ ns[1] = <<ROOT>>

\* TaggedSeries.decode for untagged paths
Decode(p, sep) == Replace(p, sep, <<Dot>>)
Segmented(n) == /\ n # <<>> /\ Head(n) # Dot /\ n[Len(n)] # Dot
                /\ ~\E i \in 1..(Len(n) - 1) : n[i] = Dot /\ n[i + 1] = Dot
                /\ Slash \notin ToSetS(n) /\ Semi \notin ToSetS(n)

Names == UNION {[1..k -> Sym] : k \in 1..MaxLen}

Cases == IF Mode = "trace" THEN JsonDeserialize(IOEnv.TRACE_FILE) ELSE <<>>
Init == IF Mode = "model" THEN name \in Names /\ tid = 0
        ELSE tid \in 1..Len(Cases) /\ name = Cases[tid].name
Next == UNCHANGED vars
Spec == Init /\ [][Next]_vars

\* C14 on the specification
ConfinedAll == \A h \in BOOLEAN : Confined(WhisperPath(name, h))
\* the Ceres node path (sep = '.') never starts with a separator and holds no empty leading segment
CeresOK == \A h \in BOOLEAN : LET e == Encode(name, Dot, h) IN e = <<>> \/ Head(e) # Dot
Injective == Segmented(name) => Decode(Encode(name, Slash, FALSE), Slash) = name /\ Decode(Encode(name, Dot, FALSE), Dot) = name

\* judge of recorded cases: the observed path equals the specified one and is confined
CaseFlags ==
  LET c == Cases[tid] IN
     (IF c.wsp # WhisperPath(c.name, c.hash = 1) THEN {"path"} ELSE {})
\cup (IF ~Confined(c.wsp) THEN {"escapes"} ELSE {})
\cup (IF c.ceres # Encode(c.name, Dot, c.hash = 1) THEN {"ceres-path"} ELSE {})
\cup (IF c.inside = 0 THEN {"file-outside-data-dir"} ELSE {})
\cup (IF c.decoded = 0 /\ Segmented(c.name) THEN {"not-injective"} ELSE {})
\cup (IF c.deterministic = 0 THEN {"nondeterministic"} ELSE {})
Report == IF Mode = "trace"
            THEN /\ \A f \in CaseFlags : PrintT(<<"F", tid, f>>)
                 /\ PrintT(<<"DONE", tid>>)
            ELSE TRUE
=============================================================================
