----------------------------- MODULE Ring_Trace -----------------------------
(* Judges recorded behaviour of the real ConsistentHashRing / ConsistentHashingRouter *)
(* / FastHashRing (C05, C06).  One record = one scenario:                            *)
(*   refpos[n][i] - ring position of replica i of node n computed by the harness'    *)
(*                  own md5-prefix / folded FNV-1a (or the controlled table)         *)
(*   ops          - membership history (add / rm), canon - configured order of the   *)
(*                  nodes alive at the end                                           *)
(*   steps[k]     - observed after op k: ring entries and, for one representative    *)
(*                  position per arc (the harness has called the real code on every  *)
(*                  position 0..65536 and verified it is constant per arc), the       *)
(*                  preference list get_nodes() and the destinations getDestinations()*)
(*   fresh        - the same observation of a freshly built real ring (canon order)   *)
(* The specification rebuilds the ring from refpos with its own add/bump/insort/      *)
(* remove and recomputes every list.  Flags name the failing clause.                  *)
EXTENDS Ring, Json, IOUtils, TLC, TLCExt

VARIABLES tid, k, sring, slive, flags
tvars == <<tid, k, sring, slive, flags, vars>>

Traces == JsonDeserialize(IOEnv.TRACE_FILE)
T == Traces[tid]

ToSetS(s) == {s[i] : i \in 1..Len(s)}
Tbl == T.refpos
NoDupS(s) == \A i, j \in 1..Len(s) : i # j => s[i] # s[j]
EligibleN(nodes) == IF T.diverse THEN Cardinality({T.server[n] : n \in nodes}) ELSE Cardinality(nodes)

\* property clauses on the OBSERVED destinations of one key
ObsFlags(d, nodes) ==
     (IF ~NoDupS(d) THEN {"dup"} ELSE {})
\cup (IF ~(ToSetS(d) \subseteq nodes) THEN {"notlive"} ELSE {})
\cup (IF Len(d) # Min2(T.rf, EligibleN(nodes)) THEN {"count"} ELSE {})
\cup (IF T.diverse /\ \E i, j \in 1..Len(d) : i # j /\ T.server[d[i]] = T.server[d[j]] THEN {"diverse"} ELSE {})

StepFlags(r, nodes, st) ==
     (IF T.kind = "ring" /\ <<>> # st.ring /\ [i \in 1..Len(st.ring) |-> <<st.ring[i][1], st.ring[i][2]>>] # r
        THEN {"ring"} ELSE {})
\cup (IF T.kind = "ring" /\ st.ring = <<>> /\ r # <<>> THEN {"ring"} ELSE {})
\cup UNION {ObsFlags(st.routes[i][3], nodes) : i \in 1..Len(st.routes)}
\cup (IF \E i \in 1..Len(st.routes) :
            LET p == st.routes[i][1]
                g == IF T.kind = "ring" THEN GetNodes(r, nodes, p) ELSE FastNodes(T.sorted[st.idx], p)
            IN st.routes[i][2] # g \/ st.routes[i][3] # DestsP(g, T.rf, T.diverse, T.server)
        THEN {"route"} ELSE {})

TInit == /\ tid \in 1..Len(Traces) /\ k = 1 /\ sring = <<>> /\ slive = {} /\ flags = {}
         /\ h = <<>> /\ ring = <<>> /\ live = {} /\ nops = 0 /\ hist = <<>>   \* (Ring's own variables: unused here)

TStep ==
  /\ k <= Len(T.ops)
  /\ LET op == T.ops[k]
         r2 == IF op[1] = "add" THEN AddNodeF(sring, op[2], Tbl) ELSE RemoveNodeF(sring, op[2])
         l2 == IF op[1] = "add" THEN slive \cup {op[2]} ELSE slive \ {op[2]}
         st == T.steps[k]
         prev == IF k = 1 THEN <<>> ELSE T.steps[k - 1].routes
     IN /\ sring' = r2 /\ slive' = l2
        /\ flags' = flags \cup StepFlags(r2, l2, st)
  /\ k' = k + 1 /\ UNCHANGED <<tid, vars>>

\* at the end: routing must equal that of a freshly started ring with the same live nodes
FinalFlags ==
  IF T.kind # "ring" \/ Len(T.ops) = 0 THEN {}
  ELSE LET fr == Fresh(T.canon, Tbl)
           last == T.steps[Len(T.ops)]
           differs == \E i \in 1..Len(last.routes) :
                         GetNodes(fr, slive, last.routes[i][1]) # last.routes[i][2]
           bumped(r) == \E i \in 1..Len(r) : \A j \in 1..Len(Tbl[r[i][2]]) : Tbl[r[i][2]][j] # r[i][1]
       IN (IF differs THEN (IF bumped(fr) \/ bumped(sring) THEN {"history:collision"} ELSE {"history"}) ELSE {})
          \cup (IF T.fresh.ring # <<>> /\ [i \in 1..Len(T.fresh.ring) |-> <<T.fresh.ring[i][1], T.fresh.ring[i][2]>>] # fr
                  THEN {"freshring"} ELSE {})

TSpec == TInit /\ [][TStep]_tvars
Report == IF k = Len(T.ops) + 1 THEN PrintT(<<"DONE", tid, flags \cup FinalFlags>>) ELSE TRUE
=============================================================================
