--------------------------- MODULE TokenBucket ---------------------------
(* carbon.util.TokenBucket (lib/carbon/util.py) on exact scaled integers.          *)
(*                                                                                 *)
(* Time is counted in clock ticks; the fill rate is rn/RD tokens per tick and the  *)
(* token count is stored multiplied by RD ("tok"), so every quantity is an integer.*)
(* A blocking acquisition sleeps the computed time rounded UP to a whole tick (a   *)
(* real sleep() returns no earlier than asked; the harness clock does the same).   *)
(* One action per public call of the class, written like the code: peek() refills  *)
(* lazily (only when the tokens on hand do not cover the cost), the blocking path  *)
(* does not refill after sleeping (tokens go negative and are paid back by time),  *)
(* setCapacityAndFillRate() shifts the tokens by the capacity delta.               *)
(*                                                                                 *)
(* The ...D actions take the decision / waiting time as a parameter so that the    *)
(* trace specification (TokenBucket_Trace) can feed them what the real code did.   *)
EXTENDS Integers, Sequences, FiniteSets

CONSTANTS RD,          \* rate denominator (tokens are scaled by RD)
          Caps,        \* capacities that may be configured
          Rates,       \* rate numerators that may be configured
          Steps,       \* clock advances offered to the environment
          InitCap, InitRate,
          MaxOps,      \* bound on the number of calls in one behaviour
          MaxNow       \* bound on the clock for exhaustive runs

VARIABLES now, tok, stamp, cap, rn,
          grants,      \* history: sequence of grant times
          epoch,       \* history: index in grants of the first grant after the last SetLimits
          mcap, mrn,   \* history: largest limits ever in force
          last,        \* history: record describing the last call (observable results)
          nops

vars == <<now, tok, stamp, cap, rn, grants, epoch, mcap, mrn, last, nops>>

Min(a, b) == IF a <= b THEN a ELSE b
Max(a, b) == IF a >= b THEN a ELSE b
CeilDiv(a, b) == IF a <= 0 THEN 0 ELSE (a + b - 1) \div b

Init == /\ now = 0 /\ stamp = 0
        /\ cap = InitCap /\ rn = InitRate
        /\ tok = InitCap * RD
        /\ grants = <<>> /\ epoch = 1
        /\ mcap = InitCap /\ mrn = InitRate
        /\ last = [op |-> "init", ok |-> TRUE, wait |-> 0, deficit |-> 0]
        /\ nops = 0

\* min(capacity, tokens + rate * elapsed) without leaving 32-bit arithmetic
Refill == IF now - stamp >= CeilDiv(cap * RD - tok, rn) THEN cap * RD
          ELSE tok + rn * (now - stamp)

\* peek(cost): the code's lazy refill.  <<tok', stamp', ok>>
PeekF(cost) ==
  IF tok >= cost * RD THEN <<tok, stamp, TRUE>>
  ELSE LET t2 == Refill IN <<t2, now, t2 >= cost * RD>>

Advance(dt) ==
  /\ now' = now + dt
  /\ UNCHANGED <<tok, stamp, cap, rn, grants, epoch, mcap, mrn, last, nops>>

PeekD(ok) ==
  /\ LET p == PeekF(1) IN
       /\ tok' = p[1] /\ stamp' = p[2]
       /\ last' = [op |-> "peek", ok |-> ok, wait |-> 0, deficit |-> 0]
  /\ nops' = nops + 1
  /\ UNCHANGED <<now, cap, rn, grants, epoch, mcap, mrn>>

TryDrainD(ok) ==
  /\ LET p == PeekF(1) IN
       /\ stamp' = p[2]
       /\ IF ok THEN /\ tok' = p[1] - RD
                     /\ grants' = Append(grants, now)
               ELSE /\ tok' = p[1]
                    /\ UNCHANGED grants
       /\ last' = [op |-> "try", ok |-> ok, wait |-> 0, deficit |-> 0]
  /\ nops' = nops + 1
  /\ UNCHANGED <<now, cap, rn, epoch, mcap, mrn>>

\* drain(1, blocking=True): tokens are charged whether or not it had to sleep
BlockDrainD(w) ==
  /\ LET p == PeekF(1) IN
       /\ stamp' = p[2]
       /\ tok' = p[1] - RD
       /\ now' = now + w
       /\ grants' = Append(grants, now + w)
       /\ last' = [op |-> "block", ok |-> TRUE, wait |-> w,
                   deficit |-> IF p[3] THEN 0 ELSE RD - p[1]]
  /\ nops' = nops + 1
  /\ UNCHANGED <<cap, rn, epoch, mcap, mrn>>

SetLimits(c, r) ==
  /\ cap' = c /\ rn' = r
  /\ tok' = tok + (c - cap) * RD
  /\ epoch' = Len(grants) + 1
  /\ mcap' = Max(mcap, c) /\ mrn' = Max(mrn, r)
  /\ last' = [op |-> "set", ok |-> TRUE, wait |-> 0, deficit |-> 0]
  /\ nops' = nops + 1
  /\ UNCHANGED <<now, stamp, grants>>

\* what the code decides
Peek == PeekD(PeekF(1)[3])
TryDrain == TryDrainD(PeekF(1)[3])
BlockDrain == LET p == PeekF(1) IN BlockDrainD(IF p[3] THEN 0 ELSE CeilDiv(RD - p[1], rn))

Next == \/ \E dt \in Steps : Advance(dt)
        \/ Peek \/ TryDrain \/ BlockDrain
        \/ \E c \in Caps, r \in Rates : SetLimits(c, r)

Spec == Init /\ [][Next]_vars

-----------------------------------------------------------------------------
(* Properties (C20) *)

\* tokens never exceed the configured burst
CapInv == tok <= cap * RD

\* n grants within dt ticks under limits (c, r):  n <= (r/RD) * dt + 2c
WinOK(n, dt, c, r) == \/ dt >= CeilDiv(n * RD, r)
                      \/ n * RD <= r * dt + 2 * c * RD

\* every window between two grants made under the limits now in force
Window ==
  \A i \in epoch..Len(grants) : \A j \in i..Len(grants) :
     WinOK(j - i + 1, grants[j] - grants[i], cap, rn)

\* windows that span a change of limits obey the bound of the larger limits
WindowAll ==
  \A i \in 1..Len(grants) : \A j \in i..Len(grants) :
     WinOK(j - i + 1, grants[j] - grants[i], mcap, mrn)

\* a blocking acquisition waits the time the rate needs to cover its deficit
\* (rounded up to the clock tick), never longer
WaitBound ==
  last.op = "block" => last.wait <= CeilDiv(last.deficit, rn)

\* a non-blocking grant never leaves the bucket in debt
NoFreeLunch ==
  (last.op = "try" /\ last.ok) => tok >= 0

TypeOK == /\ now \in Nat /\ stamp \in Nat /\ stamp <= now
          /\ tok \in Int /\ cap \in Caps \cup {InitCap} /\ rn \in Rates \cup {InitRate}

\* state-space bound for exhaustive runs
Bounded == nops <= MaxOps /\ now <= MaxNow
=============================================================================
