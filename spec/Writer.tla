------------------------------- MODULE Writer -------------------------------
(* carbon.writer: writeCachedDataPoints() / writeForever() / shutdown, as a program- *)
(* counter machine whose labels are the loop's program points, against a storing     *)
(* thread and a storage backend whose exists/create/write calls may raise.           *)
(*                                                                                   *)
(* The cache is the atomic cache of CacheLin/Cache.tla; the strategy is abstracted   *)
(* to "any cached metric" (and "nothing" while a timestamp lag is in force), which   *)
(* contains the behaviour of every real strategy.  Every datapoint id carries a      *)
(* ghost fate so that "exactly once or accounted for" is a state invariant.          *)
EXTENDS Integers, Sequences, FiniteSets

CONSTANTS Metrics, Tss, MaxStores, MaxFaults,
          CreateLimit,    \* TRUE: MAX_CREATES_PER_MINUTE configured, peek() may say no
          LagConfigured,  \* TRUE: MIN_TIMESTAMP_LAG > 0 (timesorted may report nothing to do)
          PreExisting,    \* metrics whose file exists at start
          FinalPass,      \* TRUE: writeForever() makes one last pass after the loop (repaired code)
          WithStop        \* TRUE: the orderly stop is part of the behaviour

VARIABLES pts, keys, newm,            \* cache: datapoints <<m, ts, id>>, metric keys, new_metrics deque
          exists, calls, faults,      \* backend: files, call log, faults left to inject
          cnt,                        \* instrumentation counters
          fate, pre,                  \* ghost: fate of each id; ids accepted before the stop began
          pc, cur, batch, final,      \* writer thread
          running, phase, lagOn,      \* reactor.running, shutdown phase, lag still in force
          nst

vars == <<pts, keys, newm, exists, calls, faults, cnt, fate, pre, pc, cur, batch, final,
          running, phase, lagOn, nst>>

Ids == 1..MaxStores
Points(m) == {p \in pts : p[1] = m}
Has(m, ts) == \E p \in pts : p[1] = m /\ p[2] = ts

Init == /\ pts = {} /\ keys = {} /\ newm = <<>>
        /\ exists = PreExisting /\ calls = <<>> /\ faults = MaxFaults
        /\ cnt = [creates |-> 0, errors |-> 0, dropped |-> 0, committed |-> 0, logerr |-> 0]
        /\ fate = [i \in Ids |-> "none"] /\ pre = {}
        /\ pc = "test" /\ cur = 0 /\ batch = {} /\ final = FALSE
        /\ running = TRUE /\ phase = "up" /\ lagOn = LagConfigured
        /\ nst = 0

-----------------------------------------------------------------------------
(* the storing thread: MetricCache.store (unbounded cache) *)
Store(m, ts) ==
  /\ nst < MaxStores
  /\ LET id == nst + 1 IN
     /\ nst' = id
     /\ IF Has(m, ts)
          THEN LET old == CHOOSE p \in pts : p[1] = m /\ p[2] = ts IN
               /\ pts' = (pts \ {old}) \cup {<<m, ts, id>>}
               /\ fate' = [fate EXCEPT ![id] = "cached", ![old[3]] = "superseded"]
               /\ UNCHANGED <<keys, newm>>
          ELSE /\ pts' = pts \cup {<<m, ts, id>>}
               /\ keys' = keys \cup {m}
               /\ newm' = IF Points(m) = {} THEN Append(newm, m) ELSE newm
               /\ fate' = [fate EXCEPT ![id] = "cached"]
     /\ pre' = IF phase = "up" THEN pre \cup {id} ELSE pre
  /\ UNCHANGED <<exists, calls, faults, cnt, pc, cur, batch, final, running, phase, lagOn>>

-----------------------------------------------------------------------------
(* the orderly stop: 'before shutdown' trigger, then 'during' (running := False) *)
StopBefore ==
  /\ WithStop /\ phase = "up"
  /\ phase' = "before" /\ lagOn' = FALSE          \* shutdownModifyUpdateSpeed(): lag := 0
  /\ UNCHANGED <<pts, keys, newm, exists, calls, faults, cnt, fate, pre, pc, cur, batch, final, running, nst>>

StopDuring ==
  /\ phase = "before"
  /\ phase' = "during" /\ running' = FALSE
  /\ UNCHANGED <<pts, keys, newm, exists, calls, faults, cnt, fate, pre, pc, cur, batch, final, lagOn, nst>>

-----------------------------------------------------------------------------
(* the writer thread *)
WUnch == <<pts, keys, newm, exists, calls, faults, cnt, fate, pre, cur, batch, final, running, phase, lagOn, nst>>

Bump(field) == [cnt EXCEPT ![field] = @ + 1]

\* while reactor.running:
W_Test ==
  /\ pc = "test"
  /\ IF running THEN pc' = "passTop" /\ final' = final
     ELSE IF FinalPass THEN pc' = "passTop" /\ final' = TRUE
     ELSE pc' = "exited" /\ final' = final
  /\ UNCHANGED <<pts, keys, newm, exists, calls, faults, cnt, fate, pre, cur, batch, running, phase, lagOn, nst>>

PassEnd == IF final THEN "exited" ELSE "sleep"

\* while cache:
W_PassTop ==
  /\ pc = "passTop"
  /\ pc' = IF keys = {} THEN PassEnd ELSE "createLoop"
  /\ UNCHANGED WUnch

\* while cache.new_metrics and (not CREATE_BUCKET or CREATE_BUCKET.peek(1)):
W_CreateLoop ==
  /\ pc = "createLoop"
  /\ \/ /\ newm = <<>> \/ CreateLimit            \* list empty, or the bucket has no token
        /\ pc' = "choose"
        /\ UNCHANGED <<newm, cur>>
     \/ /\ newm # <<>>
        /\ newm' = Tail(newm)
        /\ IF Head(newm) \in keys
             THEN pc' = "exists1" /\ cur' = Head(newm)
             ELSE pc' = "createLoop" /\ cur' = cur     \* already drained
  /\ UNCHANGED <<pts, keys, exists, calls, faults, cnt, fate, pre, batch, final, running, phase, lagOn, nst>>

Call(op, m, arg, ok) == calls' = Append(calls, [op |-> op, m |-> m, arg |-> arg, ok |-> ok])

\* state.database.exists(metric) in the create loop; an exception escapes the pass
W_Exists1 ==
  /\ pc = "exists1"
  /\ \/ /\ Call("exists", cur, {}, TRUE)
        /\ pc' = IF cur \in exists THEN "createLoop" ELSE "create"
        /\ UNCHANGED <<faults, cnt>>
     \/ /\ faults > 0 /\ faults' = faults - 1
        /\ Call("exists", cur, {}, FALSE)
        /\ cnt' = Bump("logerr")
        /\ pc' = IF final THEN "exited" ELSE "errSleep"
  /\ UNCHANGED <<pts, keys, newm, exists, fate, pre, cur, batch, final, running, phase, lagOn, nst>>

W_Create ==
  /\ pc = "create"
  /\ \/ /\ Call("create", cur, {}, TRUE)
        /\ exists' = exists \cup {cur}
        /\ cnt' = Bump("creates")
        /\ UNCHANGED faults
     \/ /\ faults > 0 /\ faults' = faults - 1
        /\ Call("create", cur, {}, FALSE)
        /\ cnt' = [cnt EXCEPT !.errors = @ + 1, !.logerr = @ + 1]
        /\ UNCHANGED exists
  /\ pc' = "createLoop"
  /\ UNCHANGED <<pts, keys, newm, fate, pre, cur, batch, final, running, phase, lagOn, nst>>

\* cache.drain_metric(): choose under the lock ...
W_Choose ==
  /\ pc = "choose"
  /\ \/ /\ keys = {}                              \* `if not self`
        /\ pc' = PassEnd /\ cur' = 0
     \/ /\ keys # {} /\ lagOn                     \* timesorted: nothing old enough
        /\ pc' = PassEnd /\ cur' = 0
     \/ \E m \in keys : pc' = "pop" /\ cur' = m
  /\ UNCHANGED <<pts, keys, newm, exists, calls, faults, cnt, fate, pre, batch, final, running, phase, lagOn, nst>>

\* ... pop under the lock
W_Pop ==
  /\ pc = "pop"
  /\ batch' = {<<p[2], p[3]>> : p \in Points(cur)}
  /\ pts' = pts \ Points(cur)
  /\ keys' = keys \ {cur}
  /\ fate' = [i \in Ids |-> IF \E p \in Points(cur) : p[3] = i THEN "inWriter" ELSE fate[i]]
  /\ pc' = "exists2"
  /\ UNCHANGED <<newm, exists, calls, faults, cnt, pre, cur, final, running, phase, lagOn, nst>>

SetFate(f) == fate' = [i \in Ids |-> IF \E x \in batch : x[2] = i THEN f ELSE fate[i]]

\* if not state.database.exists(metric): droppedCreates
W_Exists2 ==
  /\ pc = "exists2"
  /\ \/ /\ Call("exists", cur, {}, TRUE)
        /\ IF cur \in exists
             THEN /\ pc' = "write" /\ UNCHANGED <<cnt, fate, batch>>
             ELSE /\ cnt' = Bump("dropped") /\ SetFate("dropped") /\ batch' = {}
                  /\ pc' = "passTop"
        /\ UNCHANGED faults
     \/ /\ faults > 0 /\ faults' = faults - 1
        /\ Call("exists", cur, {}, FALSE)
        /\ cnt' = Bump("logerr")                  \* log.err() in writeForever
        /\ SetFate("errored") /\ batch' = {}
        /\ pc' = IF final THEN "exited" ELSE "errSleep"
  /\ UNCHANGED <<pts, keys, newm, exists, pre, cur, final, running, phase, lagOn, nst>>

W_Write ==
  /\ pc = "write"
  /\ \/ /\ Call("write", cur, batch, TRUE)
        /\ cnt' = [cnt EXCEPT !.committed = @ + Cardinality(batch)]
        /\ SetFate("written")
        /\ UNCHANGED faults
     \/ /\ faults > 0 /\ faults' = faults - 1
        /\ Call("write", cur, batch, FALSE)
        /\ cnt' = [cnt EXCEPT !.errors = @ + 1, !.logerr = @ + 1]
        /\ SetFate("errored")
  /\ batch' = {}
  /\ pc' = "passTop"
  /\ UNCHANGED <<pts, keys, newm, exists, pre, cur, final, running, phase, lagOn, nst>>

\* time.sleep(1) / time.sleep(0.1)
W_Sleep ==
  /\ pc \in {"sleep", "errSleep"}
  /\ pc' = "test"
  /\ UNCHANGED WUnch

Next == \/ \E m \in Metrics, ts \in Tss : Store(m, ts)
        \/ StopBefore \/ StopDuring
        \/ W_Test \/ W_PassTop \/ W_CreateLoop \/ W_Exists1 \/ W_Create
        \/ W_Choose \/ W_Pop \/ W_Exists2 \/ W_Write \/ W_Sleep

Spec == Init /\ [][Next]_vars

-----------------------------------------------------------------------------
(* C03 *)
OkWrites == {i \in 1..Len(calls) : calls[i].op = "write" /\ calls[i].ok}
WrittenIn(i) == {x[2] : x \in calls[i].arg}
MetricOf(id) == IF \E p \in pts : p[3] = id THEN (CHOOSE p \in pts : p[3] = id)[1] ELSE 0

NoDoubleWrite == \A i, j \in OkWrites : i # j => WrittenIn(i) \cap WrittenIn(j) = {}
\* every write call (successful or not) carries each id at most once over all calls
NoRewriteAfterError ==
  \A i, j \in {k \in 1..Len(calls) : calls[k].op = "write"} : i # j => WrittenIn(i) \cap WrittenIn(j) = {}
\* a write call follows a successful exists() == TRUE for the same metric, i.e. the file exists
WriteOnlyExisting ==
  \A i \in 1..Len(calls) : calls[i].op = "write" => calls[i].m \in exists
\* nothing is in the writer's hands at the outer program points
AtRest == pc \in {"test", "passTop", "createLoop", "exists1", "create", "choose", "sleep", "errSleep", "exited"}
NoSilentDiscard == AtRest => \A i \in Ids : fate[i] # "inWriter"
FateWritten == \A i \in Ids : fate[i] = "written" <=> \E k \in OkWrites : i \in WrittenIn(k)
Counters == /\ cnt.committed = Cardinality({i \in Ids : fate[i] = "written"})
            /\ (\E i \in Ids : fate[i] = "dropped") => cnt.dropped > 0
            /\ (\E i \in Ids : fate[i] = "errored") => cnt.errors + cnt.logerr > 0
HeldAccounted == \A i \in Ids : fate[i] = "cached" <=> \E p \in pts : p[3] = i

(* C04 *)
FlushOnExit == pc = "exited" =>
                 \A i \in pre : fate[i] \in {"written", "dropped", "errored", "superseded"}
\* the same, not counting executions in which an exists() fault aborted the last pass
FlushOnExitNoAbort ==
  (pc = "exited" /\ ~\E k \in 1..Len(calls) : calls[k].op = "exists" /\ ~calls[k].ok) =>
     \A i \in pre : fate[i] \in {"written", "dropped", "errored", "superseded"}

TypeOK == /\ pc \in {"test", "passTop", "createLoop", "exists1", "create", "choose", "pop",
                     "exists2", "write", "sleep", "errSleep", "exited"}
          /\ keys \subseteq Metrics /\ faults \in 0..MaxFaults
=============================================================================
