------------------------------ MODULE Pipeline ------------------------------
(* carbon.pipeline.run_pipeline with the processors the daemons install            *)
(* (carbon.service.setupPipeline):                                                    *)
(*   carbon-aggregator        rewrite:pre, aggregate, rewrite:post, relay               *)
(*   carbon-aggregator-cache  rewrite:pre, aggregate, rewrite:post, write               *)
(*   carbon-relay             relay            carbon-cache   write                      *)
(* and the pipeline for generated datapoints (state.pipeline_processors_generated:     *)
(* only relay / write - an aggregate the aggregator computes is neither rewritten nor   *)
(* aggregated again).                                                                    *)
(* A datapoint is <<name, id>>; names are small integers; the rewrite rule sets and the  *)
(* aggregation rules are functions on names (what the rule FILES mean is the subject of  *)
(* Aggregator_Trace's pattern oracle and of Rules.tla; here the plumbing is specified).  *)
(* run_pipeline(metric, datapoint, processors): the first processor's outputs are each   *)
(* run through the remaining processors; an exception raised by a processor is logged    *)
(* and affects nothing else.                                                              *)
(* Mode "model": TLC explores Receive / Generate with up to MaxFail injected processor    *)
(* failures and checks the closed-form promises below against the recursive definition;   *)
(* mode "trace": recorded executions of the real pipeline are judged (one per record).    *)
EXTENDS Integers, Sequences, FiniteSets, Json, IOUtils, TLC, TLCExt

CONSTANTS Mode, Names, Stages, Pre, Post, Agg, ForwardAll, MaxIn, MaxFail

VARIABLES nin, orig, failed, sink, bufd, errs, tid
vars == <<nin, orig, failed, sink, bufd, errs, tid>>

\* the configuration of a daemon: c.stages, c.pre, c.post (name -> name), c.agg (name -> set of names), c.fwd
ModelCfg == [stages |-> Stages, pre |-> Pre, post |-> Post, agg |-> Agg, fwd |-> ForwardAll]

\* one processor applied to one datapoint: names passed on, aggregates fed, names delivered to the relay / cache
Apply(c, stage, name) ==
  CASE stage = "pre"  -> [out |-> <<c.pre[name]>>, buf |-> {}, sink |-> <<>>]
    [] stage = "post" -> [out |-> <<c.post[name]>>, buf |-> {}, sink |-> <<>>]
    [] stage = "aggregate" ->
         [out |-> IF c.fwd /\ name \notin c.agg[name] THEN <<name>> ELSE <<>>, buf |-> c.agg[name], sink |-> <<>>]
    [] stage \in {"relay", "write"} -> [out |-> <<>>, buf |-> {}, sink |-> <<name>>]

\* run_pipeline from processor k on: [sink, buf, errs]; failAt = index of the processor that raises (0 = none)
RECURSIVE Run(_, _, _, _)
Run(c, k, name, failAt) ==
  IF k > Len(c.stages) THEN [sink |-> <<>>, buf |-> {}, errs |-> 0]
  ELSE IF k = failAt THEN [sink |-> <<>>, buf |-> {}, errs |-> 1]
  ELSE LET a == Apply(c, c.stages[k], name)
           rest == IF a.out = <<>> THEN [sink |-> <<>>, buf |-> {}, errs |-> 0] ELSE Run(c, k + 1, a.out[1], failAt)
       IN [sink |-> a.sink \o rest.sink, buf |-> a.buf \cup rest.buf, errs |-> rest.errs]

\* the generated pipeline: the relay / write processors only
Terminal(c) == SelectSeq(c.stages, LAMBDA st : st \in {"relay", "write"})

Cases == IF Mode = "trace" THEN JsonDeserialize(IOEnv.TRACE_FILE) ELSE <<>>

Init == /\ nin = 0 /\ orig = <<>> /\ failed = <<>> /\ sink = <<>> /\ bufd = {} /\ errs = 0
        /\ IF Mode = "model" THEN tid = 0 ELSE tid \in 1..Len(Cases)

Receive(name, failAt) ==
  /\ Mode = "model" /\ nin < MaxIn
  /\ failAt # 0 => Cardinality({i \in 1..nin : failed[i] # 0}) < MaxFail
  /\ LET r == Run(ModelCfg, 1, name, failAt) IN
       /\ sink' = sink \o [i \in 1..Len(r.sink) |-> [name |-> r.sink[i], id |-> nin + 1, gen |-> FALSE]]
       /\ bufd' = bufd \cup {<<a, nin + 1>> : a \in r.buf}
       /\ errs' = errs + r.errs
  /\ nin' = nin + 1 /\ orig' = Append(orig, name) /\ failed' = Append(failed, failAt)
  /\ UNCHANGED tid

\* the aggregator emits the value of aggregate `a` (events.metricGenerated -> run_pipeline_generated)
Generate(a) ==
  /\ Mode = "model" /\ \E id \in 1..nin : <<a, id>> \in bufd
  /\ Len(sink) < 2 * MaxIn
  /\ sink' = sink \o [i \in 1..Len(Terminal(ModelCfg)) |-> [name |-> a, id |-> 0, gen |-> TRUE]]
  /\ UNCHANGED <<nin, orig, failed, bufd, errs, tid>>

Next == \/ \E n \in Names, f \in 0..Len(Stages) : Receive(n, f)
        \/ \E a \in Names : Generate(a)
Spec == Init /\ [][Next]_vars

-----------------------------------------------------------------------------
\* what the daemon as a whole promises, stated without the recursion
Idx(st) == IF \E k \in 1..Len(Stages) : Stages[k] = st THEN CHOOSE k \in 1..Len(Stages) : Stages[k] = st ELSE 0
PreOf(n) == IF Idx("pre") # 0 THEN Pre[n] ELSE n
PostOf(n) == IF Idx("post") # 0 THEN Post[n] ELSE n
\* the aggregator sees the pre-rewritten name; it passes the datapoint on iff FORWARD_ALL and the name is not one
\* of the aggregates it feeds
Forwarded(n) == Idx("aggregate") = 0 \/ (ForwardAll /\ PreOf(n) \notin Agg[PreOf(n)])
Reached(id, k) == k <= Len(Stages) /\ (Idx("aggregate") = 0 \/ k <= Idx("aggregate") \/ Forwarded(orig[id]))
Fails(id) == failed[id] # 0 /\ Reached(id, failed[id])
DeliveredIds == {sink[i].id : i \in {j \in 1..Len(sink) : ~sink[j].gen}}

\* exactly once, under the name post(pre(name)), iff forwarded and no processor on its way raised
ExactlyOnce == /\ \A i, j \in 1..Len(sink) : (~sink[i].gen /\ ~sink[j].gen /\ sink[i].id = sink[j].id) => i = j
               /\ DeliveredIds = {id \in 1..nin : Forwarded(orig[id]) /\ ~Fails(id)}
NameRule == \A i \in 1..Len(sink) : ~sink[i].gen => sink[i].name = PostOf(PreOf(orig[sink[i].id]))
\* every aggregate a rule derives from the pre-rewritten name is fed, unless a processor up to the aggregator raised
Buffered == bufd = {<<a, id>> \in Names \X (1..nin) :
                      /\ Idx("aggregate") # 0 /\ a \in Agg[PreOf(orig[id])]
                      /\ ~(failed[id] # 0 /\ failed[id] <= Idx("aggregate"))}
\* computed aggregates are passed on under their own name: not rewritten, not aggregated again
GeneratedUntouched == \A i \in 1..Len(sink) : sink[i].gen => \E id \in 1..nin : <<sink[i].name, id>> \in bufd
\* one logged error per datapoint whose processing hit the failing processor; nothing is silently lost
ErrorsCounted == errs = Cardinality({id \in 1..nin : Fails(id)})
TypeOK == nin \in 0..MaxIn /\ errs \in 0..MaxIn /\ Len(orig) = nin /\ Len(failed) = nin

-----------------------------------------------------------------------------
(* trace mode: one record per case
     [stages, pre, post (sequences indexed by name), agg (sequence of sequences), fwd (0/1), name, failAt,
      gen (0, or the aggregate emitted), sink (names delivered, in order), buf (aggregate names fed),
      errs (errors logged)] *)
CaseCfg(t) == [stages |-> t.stages, pre |-> t.pre, post |-> t.post,
               agg |-> [n \in 1..Len(t.agg) |-> {t.agg[n][i] : i \in 1..Len(t.agg[n])}], fwd |-> (t.fwd = 1)]
CaseFlags ==
  LET t == Cases[tid]
      c == CaseCfg(t) IN
  IF t.gen # 0
    THEN (IF t.sink # [i \in 1..Len(Terminal(c)) |-> t.gen] THEN {"generated"} ELSE {})
    ELSE LET r == Run(c, 1, t.name, t.failAt) IN
            (IF t.sink # r.sink THEN {"delivered"} ELSE {})
       \cup (IF {t.buf[i] : i \in 1..Len(t.buf)} # r.buf THEN {"aggregates-fed"} ELSE {})
       \cup (IF t.errs # r.errs THEN {"errors-logged"} ELSE {})
Report == IF Mode = "trace"
            THEN /\ \A f \in CaseFlags : PrintT(<<"F", tid, f>>)
                 /\ PrintT(<<"DONE", tid>>)
            ELSE TRUE
=============================================================================
