-------------------------- MODULE FlowCache_Trace --------------------------
(* Judge for executions recorded from the real cache-side flow control (C09):       *)
(* real MetricCache + real carbon.events + real service.py wiring + real receivers   *)
(* on StringTransports, the storing/connection thread and the draining thread        *)
(* interleaved at source-line granularity (cache.py, events.py, protocols.py).       *)
(* Events:  chain  (an events.cacheFull / cacheSpaceAvailable call started or ended  *)
(*                  on a thread)                                                      *)
(*          obs    (cacheTooFull, metricReceiversPaused, size, per-receiver           *)
(*                  connected/producing - logged whenever it changes)                 *)
(*          conn   (a receiver finished connectionMade: must be paused iff paused)    *)
(*          end    (threads finished, cache drained completely: quiescence)           *)
(* Verdict flags: "stuck" (quiescent, below watermark, somebody still paused),        *)
(* "overlap" (a cacheFull chain and a cacheSpaceAvailable chain were in progress at   *)
(* the same time), "wrace" (a cacheSpaceAvailable chain ran on the writer thread while *)
(* an operation of the reactor thread - store, connectionMade, connectionLost - was in *)
(* progress: the signature of the listed finding F8), "newconn" (a connection made      *)
(* while paused was left producing / made while not paused was left paused).            *)
EXTENDS Integers, Sequences, FiniteSets, Json, IOUtils, TLC, TLCExt

VARIABLES tid, l, open, sop, wop, cur, flags
vars == <<tid, l, open, sop, wop, cur, flags>>

Traces == JsonDeserialize(IOEnv.TRACE_FILE)
Ev == Traces[tid].ev

Init == /\ tid \in 1..Len(Traces) /\ l = 1 /\ open = {} /\ sop = FALSE /\ wop = FALSE /\ flags = {}
        /\ cur = [size |-> 0, paused |-> FALSE, conn |-> <<>>, producing |-> <<>>]

PausedBelow(o, low) == o.size < low /\ (o.paused \/ \E i \in 1..Len(o.conn) : o.conn[i] /\ ~o.producing[i])

\* a cacheSpaceAvailable chain is running on the writer thread
WChain(o) == \E x \in o : x[1] = "W" /\ x[2] = "cacheSpaceAvailable"

Step ==
  /\ l <= Len(Ev)
  /\ l' = l + 1 /\ UNCHANGED tid
  /\ LET e == Ev[l] IN
     CASE e.k = "chain" /\ e.ph = "start" ->
            /\ open' = open \cup {<<e.t, e.ev>>}
            \* "wrace"/"overlap" describe the MOST RECENT cacheSpaceAvailable chain of the writer thread
            /\ flags' = IF e.t = "W" /\ e.ev = "cacheSpaceAvailable"
                          THEN (flags \ {"wrace", "overlap"}) \cup (IF sop THEN {"wrace"} ELSE {})
                                 \cup (IF \E o \in open : o[1] # e.t /\ o[2] # e.ev THEN {"overlap"} ELSE {})
                          ELSE flags \cup (IF WChain(open) /\ e.t # "W" THEN {"overlap"} ELSE {})
            /\ UNCHANGED <<sop, wop, cur>>
       [] e.k = "chain" /\ e.ph = "end" ->
            /\ open' = open \ {<<e.t, e.ev>>} /\ UNCHANGED <<flags, sop, wop, cur>>
       [] e.k = "op" ->
            \* an operation of the reactor thread (store / connectionMade / connectionLost) or a drain of
            \* the writer begins or ends; when nothing at all is in progress and the cache is below its
            \* low watermark nobody may be paused (every pop that crosses the watermark resumes)
            /\ sop' = IF e.t = "S" THEN (e.ph = "start") ELSE sop
            /\ wop' = IF e.t = "W" THEN (e.ph = "start") ELSE wop
            /\ flags' = flags \cup (IF e.t = "S" /\ e.ph = "start" /\ WChain(open) THEN {"wrace"} ELSE {})
                               \cup (IF e.ph = "end" /\ open = {} /\ ~(IF e.t = "S" THEN wop ELSE sop)
                                        /\ PausedBelow(cur, Traces[tid].low) THEN {"stuck"} ELSE {})
            /\ UNCHANGED <<open, cur>>
       [] e.k = "obs" ->
            /\ cur' = [size |-> e.size, paused |-> e.paused, conn |-> e.conn, producing |-> e.producing]
            /\ UNCHANGED <<open, sop, wop, flags>>
       [] e.k = "conn" ->
            /\ flags' = IF e.producing = e.paused THEN flags \cup {"newconn"} ELSE flags
            /\ UNCHANGED <<open, sop, wop, cur>>
       [] e.k = "end" ->
            /\ flags' = IF PausedBelow(e, e.low) THEN flags \cup {"stuck"} ELSE flags
            /\ UNCHANGED <<open, sop, wop, cur>>
       [] OTHER -> UNCHANGED <<open, sop, wop, cur, flags>>

Spec == Init /\ [][Step]_vars
Report == IF l = Len(Ev) + 1 THEN PrintT(<<"DONE", tid, flags>>) ELSE TRUE
=============================================================================
