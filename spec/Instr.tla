-------------------------------- MODULE Instr --------------------------------
(* carbon.instrumentation: interval counters.  increment() adds to the current interval; recordMetrics()    *)
(* takes a snapshot, starts a new interval at once and then publishes the snapshot as self-metrics - a slow   *)
(* operation during which other code keeps counting (the writer thread; the relay's own send path while the  *)
(* self-metrics go out).  Nothing counted is ever lost: published + snapshot in flight + current = counted.  *)
(* Mode "model": TLC explores increments and reports of a small counter set; mode "trace": recorded runs of   *)
(* the real module (increments before, during and after real recordMetrics() calls) are judged.               *)
EXTENDS Integers, Sequences, FiniteSets, Json, IOUtils, TLC, TLCExt

CONSTANTS Mode, Counters, MaxInc

VARIABLES cur, snap, reporting, published, total, tid
vars == <<cur, snap, reporting, published, total, tid>>

Zero == [c \in Counters |-> 0]
Cases == IF Mode = "trace" THEN JsonDeserialize(IOEnv.TRACE_FILE) ELSE <<>>
Init == /\ cur = Zero /\ snap = Zero /\ reporting = FALSE /\ published = Zero /\ total = Zero
        /\ IF Mode = "model" THEN tid = 0 ELSE tid \in 1..Len(Cases)

Inc(c) == /\ Mode = "model" /\ total[c] < MaxInc
          /\ cur' = [cur EXCEPT ![c] = @ + 1] /\ total' = [total EXCEPT ![c] = @ + 1]
          /\ UNCHANGED <<snap, reporting, published, tid>>
\* myStats = stats.copy(); stats.clear()
ReportBegin == /\ Mode = "model" /\ ~reporting
               /\ snap' = cur /\ cur' = Zero /\ reporting' = TRUE
               /\ UNCHANGED <<published, total, tid>>
\* the record(...) calls: the snapshot goes out
ReportEnd == /\ Mode = "model" /\ reporting
             /\ published' = [c \in Counters |-> published[c] + snap[c]] /\ snap' = Zero /\ reporting' = FALSE
             /\ UNCHANGED <<cur, total, tid>>
Next == (\E c \in Counters : Inc(c)) \/ ReportBegin \/ ReportEnd
Spec == Init /\ [][Next]_vars

NothingLost == \A c \in Counters : published[c] + snap[c] + cur[c] = total[c]

\* trace mode: one record per (run, counter): [before, during, after (increments made), pub (values published by the
\* reports, in order), first, left (value in the current interval at the end), nreports]
CaseFlags ==
  LET t == Cases[tid]
      sumpub == IF Len(t.pub) = 0 THEN 0 ELSE LET S[i \in 0..Len(t.pub)] == IF i = 0 THEN 0 ELSE S[i - 1] + t.pub[i] IN S[Len(t.pub)]
  IN (IF sumpub + t.left # t.before + t.during + t.after THEN {"counts-lost"} ELSE {})
     \* t.first: what the FIRST report published for the counter (-1: it did not mention it - the relay's report lists only
     \* the counters that exist): everything counted before it began, and nothing that had not been counted yet
     \cup (IF t.first >= 0 /\ (t.first < t.before \/ t.first > t.before + t.during) THEN {"first-report"} ELSE {})
Report == IF Mode = "trace"
            THEN /\ \A f \in CaseFlags : PrintT(<<"F", tid, f>>)
                 /\ PrintT(<<"DONE", tid>>)
            ELSE TRUE
=============================================================================
