------------------------------ MODULE Unpickle ------------------------------
(* The pickle machine as far as global references are concerned, with                *)
(* SafeUnpickler.find_class as the only gate (C13).  Stack values: "d" plain data,    *)
(* "m" mark, "x" a container holding something that is not plain data, "i" an          *)
(* instance produced by a call, <<"g", ref>> a resolved global.  References:           *)
(* "listed" (module and name on the allow-list), "othername" (listed module, other      *)
(* name), "othermod" (module not listed).  Every opcode route that resolves a reference *)
(* goes through FindClass; REDUCE / OBJ / NEWOBJ / NEWOBJ_EX / BUILD can only call what  *)
(* a route put on the stack ("g_listed" / "g_othername" / "g_othermod" are resolved globals).  On Python 3 the listed modules (copy_reg, __builtin__)     *)
(* cannot be imported, so even a listed reference ends in ImportError.                   *)
EXTENDS Integers, Sequences, FiniteSets, Json, IOUtils, TLC, TLCExt

CONSTANTS Mode, MaxOps, Py3

VARIABLES stack, memo, status, looked, called, n, prog, tid
vars == <<stack, memo, status, looked, called, n, prog, tid>>

Refs == {"listed", "othername", "othermod"}
Plain(v) == v = "d"
G(r) == CASE r = "listed" -> "g_listed" [] r = "othername" -> "g_othername" [] OTHER -> "g_othermod"
IsG(v) == v \in {"g_listed", "g_othername", "g_othermod"}
RefOf(v) == CASE v = "g_listed" -> "listed" [] v = "g_othername" -> "othername" [] OTHER -> "othermod"

Top == stack[Len(stack)]
Pop(k) == SubSeq(stack, 1, Len(stack) - k)
MarkIdx == IF \E i \in 1..Len(stack) : stack[i] = "m"
             THEN CHOOSE i \in 1..Len(stack) : stack[i] = "m" /\ \A j \in (i + 1)..Len(stack) : stack[j] # "m" ELSE 0

\* SafeUnpickler.find_class(module, name): <<ok, status'>>
Gate(r) == IF r = "listed" THEN (IF Py3 THEN <<FALSE, "rejected">> ELSE <<TRUE, "run">>) ELSE <<FALSE, "rejected">>

Step(op, r) ==
  /\ status = "run" /\ n < MaxOps
  /\ n' = n + 1 /\ prog' = Append(prog, <<op, r>>) /\ UNCHANGED tid
  /\ CASE op = "data" -> stack' = Append(stack, "d") /\ UNCHANGED <<memo, status, looked, called>>
       [] op = "mark" -> stack' = Append(stack, "m") /\ UNCHANGED <<memo, status, looked, called>>
       [] op = "tuple" ->
            IF MarkIdx = 0 THEN status' = "error" /\ UNCHANGED <<stack, memo, looked, called>>
            ELSE LET items == SubSeq(stack, MarkIdx + 1, Len(stack)) IN
                 /\ stack' = Append(SubSeq(stack, 1, MarkIdx - 1), IF \A k \in 1..Len(items) : Plain(items[k]) THEN "d" ELSE "x")
                 /\ UNCHANGED <<memo, status, looked, called>>
       [] op \in {"global", "sglobal", "ext"} ->
            IF op = "sglobal" /\ (Len(stack) < 2 \/ ~Plain(Top) \/ ~Plain(stack[Len(stack) - 1]))
              THEN status' = "error" /\ UNCHANGED <<stack, memo, looked, called>>
            ELSE LET g == Gate(r)
                     base == IF op = "sglobal" THEN Pop(2) ELSE stack IN
                 IF g[1] THEN /\ stack' = Append(base, G(r)) /\ looked' = looked \cup {r}
                              /\ UNCHANGED <<memo, status, called>>
                 ELSE status' = g[2] /\ UNCHANGED <<stack, memo, looked, called>>
       [] op = "inst" ->
            IF MarkIdx = 0 THEN status' = "error" /\ UNCHANGED <<stack, memo, looked, called>>
            ELSE LET g == Gate(r) IN
                 IF g[1] THEN /\ stack' = Append(SubSeq(stack, 1, MarkIdx - 1), "i")
                              /\ looked' = looked \cup {r} /\ called' = called \cup {r}
                              /\ UNCHANGED <<memo, status>>
                 ELSE status' = g[2] /\ UNCHANGED <<stack, memo, looked, called>>
       [] op = "obj" ->
            IF MarkIdx = 0 \/ MarkIdx = Len(stack) \/ ~IsG(stack[MarkIdx + 1])
              THEN status' = "error" /\ UNCHANGED <<stack, memo, looked, called>>
            ELSE /\ called' = called \cup {RefOf(stack[MarkIdx + 1])}
                 /\ stack' = Append(SubSeq(stack, 1, MarkIdx - 1), "i")
                 /\ UNCHANGED <<memo, status, looked>>
       [] op \in {"reduce", "newobj"} ->
            IF Len(stack) < 2 \/ ~IsG(stack[Len(stack) - 1])
              THEN status' = "error" /\ UNCHANGED <<stack, memo, looked, called>>
            ELSE /\ called' = called \cup {RefOf(stack[Len(stack) - 1])}
                 /\ stack' = Append(Pop(2), "i") /\ UNCHANGED <<memo, status, looked>>
       [] op = "newobjex" ->
            IF Len(stack) < 3 \/ ~IsG(stack[Len(stack) - 2])
              THEN status' = "error" /\ UNCHANGED <<stack, memo, looked, called>>
            ELSE /\ called' = called \cup {RefOf(stack[Len(stack) - 2])}
                 /\ stack' = Append(Pop(3), "i") /\ UNCHANGED <<memo, status, looked>>
       [] op = "build" ->
            IF Len(stack) < 2 \/ stack[Len(stack) - 1] # "i"
              THEN status' = "error" /\ UNCHANGED <<stack, memo, looked, called>>
            ELSE stack' = Pop(1) /\ UNCHANGED <<memo, status, looked, called>>
       [] op = "persid" -> status' = "rejected" /\ UNCHANGED <<stack, memo, looked, called>>
       [] op = "put" -> IF stack = <<>> THEN status' = "error" /\ UNCHANGED <<stack, memo, looked, called>>
                        ELSE memo' = Top /\ UNCHANGED <<stack, status, looked, called>>
       [] op = "get" -> IF memo = "none" THEN status' = "error" /\ UNCHANGED <<stack, memo, looked, called>>
                        ELSE stack' = Append(stack, memo) /\ UNCHANGED <<memo, status, looked, called>>
       [] op = "stop" -> /\ status' = IF stack = <<>> \/ Top = "m" THEN "error" ELSE "done"
                         /\ UNCHANGED <<stack, memo, looked, called>>

Ops0 == {"data", "mark", "tuple", "obj", "reduce", "newobj", "newobjex", "build", "persid", "put", "get", "stop"}
OpsR == {"global", "sglobal", "inst", "ext"}

Cases == IF Mode = "trace" THEN JsonDeserialize(IOEnv.TRACE_FILE) ELSE <<>>
Init == /\ stack = <<>> /\ memo = "none" /\ status = "run" /\ looked = {} /\ called = {} /\ n = 0 /\ prog = <<>>
        /\ IF Mode = "model" THEN tid = 0 ELSE tid \in 1..Len(Cases)
Next == IF Mode = "model"
          THEN \/ \E op \in Ops0 : Step(op, "none")
               \/ \E op \in OpsR, r \in Refs : Step(op, r)
          ELSE \* replay the recorded abstract program on the machine
               /\ n < Len(Cases[tid].ops)
               /\ Step(Cases[tid].ops[n + 1][1], Cases[tid].ops[n + 1][2])
Spec == Init /\ [][Next]_vars

\* C13 on the machine
Safe == looked \subseteq {"listed"} /\ called \subseteq {"listed"}
NothingOnPy3 == Py3 => (looked = {} /\ called = {})
PlainResult == (Py3 /\ status = "done") => Top \in {"d"}

\* judge of a recorded execution of the real unpicklers
CaseFlags ==
  LET c == Cases[tid] IN
     (IF c.looked # <<>> THEN {"global-loaded"} ELSE {})
\cup (IF c.called # <<>> THEN {"global-called"} ELSE {})
\cup (IF c.imported # <<>> THEN {"module-imported"} ELSE {})
\cup (IF c.outcome = "value" /\ c.plain = 0 THEN {"nonplain-result"} ELSE {})
\cup (IF (c.outcome = "value") # (status = "done") THEN {"drift:outcome"} ELSE {})
Finished == Mode = "trace" /\ (status # "run" \/ n = Len(Cases[tid].ops))
Report == IF Finished
            THEN /\ \A f \in CaseFlags : PrintT(<<"F", tid, f>>)
                 /\ PrintT(<<"DONE", tid>>)
            ELSE TRUE
=============================================================================
