---------------------------- MODULE Relay_Trace ----------------------------
(* Judges executions recorded from the real relay client stack against Relay.tla.   *)
(* Each event is one reactor callback and carries the complete observable projection *)
(* after it (queues, decoded bytes written to every connection, timers, connection   *)
(* state, router membership, counters, flow-control flags, receivers).  The callback *)
(* is applied to the previously OBSERVED state (re-synchronisation after every step),*)
(* so a verdict is always local to one callback and total:                           *)
(*   property layer  (C07): content  - what is written + queued at some destination  *)
(*                                     is not what FIFO/exactly-once/hard-limit give  *)
(*                          drops, fake, batch, stopflush, undelivered (queued     *)
(*                          data of a connected unpaused destination, no send timer) *)
(*                   (C09): stuck    - quiescent, a destination up, every queue below *)
(*                                     its low watermark, receivers still paused      *)
(*   implementation layer : drift:<field> for any other projected field              *)
EXTENDS Relay, Json, IOUtils, TLC, TLCExt

VARIABLES tid, l, flags
tvars == <<vars, tid, l, flags>>

Traces == JsonDeserialize(IOEnv.TRACE_FILE)
Ev == Traces[tid].ev

Overlay(st, p) ==
  [st EXCEPT !.q = p.q, !.wire = p.wire, !.cs = p.cs, !.pconn = p.pconn, !.tp = p.tp,
             !.st = p.st, !.rt = p.rt, !.retries = p.retries, !.has = p.has, !.drops = p.drops,
             !.fullCalled = p.fullCalled, !.trying = p.trying, !.stopReq = p.stopReq,
             !.fake = p.fake, !.tooFull = p.tooFull, !.rpaused = p.rpaused,
             !.rconn = p.rconn, !.prod = p.prod]

Ov(e) == [k \in 1..Len(e.routes) |-> {e.routes[k][j] : j \in 1..Len(e.routes[k])}]

\* e.pd: the transport of destination pd paused its producer INSIDE a write() of this callback (its buffer overflowed):
\* the callback composed with TPause.  "WFull" only primes the stand-in transport for that (no state change).
Post0(e) ==
  CASE e.e = "Init" -> InitState
    [] e.e = "WFull" -> s
    [] e.e = "Arrive" -> ArriveF(s, e.i, FALSE, Ov(e))
    [] e.e = "ArriveHi" -> ArriveF(s, e.i, TRUE, Ov(e))
    [] e.e = "SendTimer" -> SendTimerF(s, e.arg, Ov(e))
    [] e.e = "ConnMade" -> ConnMadeF(s, e.arg, Ov(e))
    [] e.e = "ConnLost" -> ConnLostF(s, e.arg, Ov(e))
    [] e.e = "ConnFailed" -> ConnFailedF(s, e.arg, Ov(e))
    [] e.e = "RetryTimer" -> RetryTimerF(s, e.arg)
    [] e.e = "TPause" -> TPauseF(s, e.arg)
    [] e.e = "TResume" -> TResumeF(s, e.arg, Ov(e))
    [] e.e = "Stop" -> StopF(s)
    [] e.e = "RConnect" -> RConnectF(s, e.arg)
    [] e.e = "RDisconnect" -> RDisconnectF(s, e.arg)
    [] e.e = "Slow" -> QualityF(s, TRUE)
    [] e.e = "Fast" -> QualityF(s, FALSE)
Post(e) == IF e.pd # 0 /\ e.e # "Init" THEN TPauseF(Post0(e), e.pd) ELSE Post0(e)

OutOf(w, q) == FlattenSeq(w) \o q

QuiescentS(st) == /\ \A d \in Dest : ~st.st[d] /\ (st.has[d] => ~st.rt[d])
                  /\ \A d \in Dest : st.cs[d] = "connected" => (st.pconn[d] /\ ~st.tp[d])
                  /\ \A d \in Dest : st.has[d] => st.cs[d] # "connecting"
StuckS(st) == /\ QuiescentS(st) /\ ~st.stopped
              /\ \E d \in Dest : st.cs[d] = "connected" /\ st.has[d]
              /\ \A d \in Dest : Len(st.q[d]) < LowC
              /\ (st.rpaused \/ \E c \in Recv : st.rconn[c] /\ ~st.prod[c])

StopDone(st, d) == st.stopped /\ ~st.trying[d] /\ ~st.stopReq[d] /\ ~st.pconn[d]

PropFlags(post, p, e) ==
     (IF \E d \in Dest : OutOf(post.wire[d], post.q[d]) # OutOf(p.wire[d], p.q[d]) THEN {"content"} ELSE {})
\cup (IF p.drops # post.drops THEN {"drops"} ELSE {})
\* (after the orderly stop has begun the manager is being dismantled: what a removal re-routes then has nowhere to go -
\* listed finding F19, reported under its own flag)
\cup (IF p.fake # post.fake THEN {IF s.stopped /\ e.e \in {"ConnLost", "ConnFailed"} THEN "fake-stop" ELSE "fake"} ELSE {})
\cup (IF \E d \in Dest : \E k \in 1..Len(p.wire[d]) : Len(p.wire[d][k]) < 1 \/ Len(p.wire[d][k]) > MaxPerMsg
        THEN {"batch"} ELSE {})
\* a connection began to close in this callback while its queue still held datapoints, or bytes were written to a
\* connection that was already closing - unless a connection-quality reset closed it (its buffer is still transmitted)
\* (bytes written to the closing connection of a destination that had COMPLETED its orderly stop - stop requested, queue
\* flushed, connection closed - can only come from a removal re-routing datapoints to it during the stop: F19)
\cup (IF \E d \in Dest : \/ (p.newclose[d] /\ ~(post.rclosed[d] /\ post.closedBad = s.closedBad))
                         \/ (p.wac[d] /\ ~post.rclosed[d] /\ ~StopDone(s, d))
        THEN {"stopflush"} ELSE {})
\cup (IF \E d \in Dest : p.wac[d] /\ ~post.rclosed[d] /\ StopDone(s, d) THEN {"fake-stop"} ELSE {})
\* the routes are taken from the recorded execution (the hash ring decides them), but not blindly: while a destination
\* is configured after the callback, nothing routed during it may have gone nowhere, and a route only names
\* destinations configured before or after it
\* (not judged once the orderly stop has begun: the manager is being dismantled then)
\cup (IF ~s.stopped /\ \E k \in 1..Len(Ov(e)) : \/ (Ov(e)[k] = {} /\ \E d \in Dest : p.has[d])
                                   \/ ~(Ov(e)[k] \subseteq {d \in Dest : p.has[d] \/ s.has[d]})
        THEN {"misrouted"} ELSE {})
\* the queue of a destination the dynamic router removes in this callback is re-routed to the OTHER destinations (or held
\* back when none is left): a recorded route that names the removed destination sends the datapoint into the queue that is
\* being thrown away
\cup (IF e.e \in {"ConnLost", "ConnFailed"} /\ s.has[e.arg] /\ ~post.has[e.arg]
         /\ \E k \in 1..Len(Ov(e)) : e.arg \in Ov(e)[k]
        THEN {"misrouted"} ELSE {})
\* a destination that still holds queued datapoints is never given up: it is connected, connecting or waiting to retry
\cup (IF \E d \in Dest : p.cs[d] = "stopped" /\ p.q[d] # <<>>
                          /\ (s.cs[d] # "stopped" \/ (Len(p.q[d]) > Len(s.q[d]) /\ ~s.stopped))
        THEN {"abandoned"} ELSE {})
\* ... a destination that had ALREADY finished its orderly stop can still be handed datapoints by a removal that happens
\* during the stop (F19)
\cup (IF \E d \in Dest : p.cs[d] = "stopped" /\ s.cs[d] = "stopped" /\ Len(p.q[d]) > Len(s.q[d]) /\ s.stopped
        THEN {"abandoned-stop"} ELSE {})
\cup (IF StuckS(Overlay(post, p)) THEN {"stuck"} ELSE {})
\cup (IF ~SendScheduledS(Overlay(post, p)) THEN {"undelivered"} ELSE {})

DriftFlags(post, p) ==
     (IF p.q # post.q \/ p.wire # post.wire THEN {"drift:split"} ELSE {})
\cup (IF p.cs # post.cs THEN {"drift:cs"} ELSE {})
\cup (IF p.pconn # post.pconn THEN {"drift:pconn"} ELSE {})
\cup (IF p.tp # post.tp THEN {"drift:tp"} ELSE {})
\cup (IF p.st # post.st THEN {"drift:sendtimer"} ELSE {})
\cup (IF p.rt # post.rt THEN {"drift:retrytimer"} ELSE {})
\cup (IF p.retries # post.retries THEN {"drift:retries"} ELSE {})
\cup (IF p.has # post.has THEN {"drift:router"} ELSE {})
\cup (IF p.fullCalled # post.fullCalled THEN {"drift:queueFull"} ELSE {})
\cup (IF p.trying # post.trying THEN {"drift:trying"} ELSE {})
\cup (IF p.stopReq # post.stopReq THEN {"drift:stopReq"} ELSE {})
\cup (IF p.tooFull # post.tooFull THEN {"drift:cacheTooFull"} ELSE {})
\cup (IF p.rpaused # post.rpaused THEN {"drift:receiversPaused"} ELSE {})
\cup (IF p.rconn # post.rconn \/ p.prod # post.prod THEN {"drift:receivers"} ELSE {})

TInit == /\ tid \in 1..Len(Traces) /\ l = 1 /\ flags = {}
         /\ s = InitState /\ nitems = 0 /\ hi = {} /\ nconn = 0 /\ lastEv = <<"init", 0>>

TStep ==
  /\ l <= Len(Ev)
  /\ LET e == Ev[l]
         post == Post(e) IN
     /\ flags' = flags \cup {<<f, l>> : f \in PropFlags(post, e.p, e)} \cup {<<f, 0>> : f \in DriftFlags(post, e.p)}
     /\ s' = Overlay(post, e.p)
     /\ hi' = IF e.e = "ArriveHi" THEN hi \cup {e.i} ELSE hi
     /\ nitems' = IF e.e \in {"Arrive", "ArriveHi"} THEN e.i ELSE nitems
  /\ l' = l + 1
  /\ UNCHANGED <<tid, nconn, lastEv>>

TSpec == TInit /\ [][TStep]_tvars

\* one short line per flag (safe with several TLC workers), then the end marker
Report == IF l = Len(Ev) + 1
            THEN /\ \A f \in flags : PrintT(<<"F", tid, f[1], f[2]>>)
                 /\ PrintT(<<"DONE", tid>>)
            ELSE TRUE
=============================================================================
