------------------------ MODULE TokenBucket_Trace ------------------------
(* Judges executions recorded from the real carbon.util.TokenBucket (directly and  *)
(* through the writer's create/update buckets) against TokenBucket.tla.            *)
(*                                                                                 *)
(* A batch file holds many traces; Init picks one (tid).  Every event carries what  *)
(* the code did (decision, waiting time, clock, token count); the specification's   *)
(* ...D actions are fed those observations, so the verdict is total: a trace is     *)
(* always consumed to its end and the failing clause is named in `flags`:           *)
(*   property layer : "window" "windowall" "waitlong"                               *)
(*   implementation : "decision" "waitshort" "state"     (reported as drift)        *)
EXTENDS TokenBucket, Json, IOUtils, TLC, TLCExt

VARIABLES tid, l, flags
tvars == <<vars, tid, l, flags>>

Traces == JsonDeserialize(IOEnv.TRACE_FILE)
Ev == Traces[tid].ev

TInit == /\ tid \in 1..Len(Traces)
         /\ l = 1 /\ flags = {}
         /\ now = 0 /\ stamp = 0
         /\ cap = Traces[tid].cap /\ rn = Traces[tid].rn
         /\ tok = Traces[tid].cap * RD
         /\ grants = <<>> /\ epoch = 1
         /\ mcap = Traces[tid].cap /\ mrn = Traces[tid].rn
         /\ last = [op |-> "init", ok |-> TRUE, wait |-> 0, deficit |-> 0]
         /\ nops = 0

Abs(x) == IF x < 0 THEN -x ELSE x

\* flags raised by event e when taken in the current state
EvFlags(e) ==
  LET p == PeekF(1)
      boundary == p[1] = RD
      exactWait == IF p[3] THEN 0 ELSE CeilDiv(RD - p[1], rn)
  IN  (IF e.op \in {"try", "peek"} /\ (e.ok = 1) # p[3] /\ ~boundary THEN {"decision"} ELSE {})
      \cup (IF e.op = "block" /\ e.wait > exactWait /\ ~(boundary /\ e.wait <= 1) THEN {"waitlong"} ELSE {})
      \cup (IF e.op = "block" /\ e.wait < exactWait /\ ~boundary THEN {"waitshort"} ELSE {})

\* (at a threshold - exact token count equal to the cost - float rounding may take either branch)
StateFlag(e) == IF (Abs(e.tok - tok') > 1 \/ e.st # stamp') /\ PeekF(1)[1] # RD THEN {"state"} ELSE {}

\* the judge re-synchronises with the observed bucket (token count, refill time stamp) after a
\* deviation has been flagged, so that one float rounding at a threshold does not colour the
\* verdicts of the following calls
InSync == IF l = 1 THEN TRUE ELSE (Abs(Ev[l - 1].tok - tok) <= 1 /\ Ev[l - 1].st = stamp)
Resync == /\ l > 1 /\ l <= Len(Ev) + 1 /\ ~InSync
          /\ tok' = Ev[l - 1].tok /\ stamp' = Ev[l - 1].st
          /\ UNCHANGED <<now, cap, rn, grants, epoch, mcap, mrn, last, nops, tid, l, flags>>

TEvent ==
  /\ l <= Len(Ev) /\ InSync
  /\ LET e == Ev[l] IN
       \/ /\ e.now > now
          /\ Advance(e.now - now)
          /\ UNCHANGED <<tid, l, flags>>
       \/ /\ e.now <= now
          /\ \/ e.op = "peek" /\ PeekD(e.ok = 1)
             \/ e.op = "try" /\ TryDrainD(e.ok = 1)
             \/ e.op = "block" /\ BlockDrainD(e.wait)
             \/ e.op = "set" /\ SetLimits(e.c, e.r)
          /\ flags' = flags \cup EvFlags(e) \cup StateFlag(e)
                         \cup (IF e.now < now THEN {"clock"} ELSE {})
          /\ l' = l + 1
          /\ UNCHANGED tid


TStep == Resync \/ TEvent

TSpec == TInit /\ [][TStep]_tvars

Final == flags
         \cup (IF Window THEN {} ELSE {"window"})
         \cup (IF WindowAll THEN {} ELSE {"windowall"})

Report == IF l = Len(Ev) + 1 /\ InSync THEN PrintT(<<"DONE", tid, Final>>) ELSE TRUE
=============================================================================
