----------------------------- MODULE CacheLin -----------------------------
(* Property layer for the metric cache (C02, C10, C17): the atomic cache CacheAbs *)
(* used as a linearizability oracle for executions recorded from the real          *)
(* carbon.cache._MetricCache under a line-level deterministic scheduler.           *)
(*                                                                                 *)
(* Recorded events (one JSON object each):                                         *)
(*   call/ret of store, drain (drain_metric), query (cache-query on the real       *)
(*   CacheManagementHandler) per thread; "chose" (strategy.choose_item returned,   *)
(*   logged while the cache lock is held); "obs" (size attribute, datapoints held, *)
(*   number of metric keys, sampled at scheduling points where the lock is free);  *)
(*   "end" (after the final flush).                                                *)
(* Each operation takes effect atomically at a silent Lin step between its call    *)
(* and its return; TLC searches for a placement that explains every observation.   *)
(* No placement => the trace is rejected (VIOLATION).  Deviations that are listed  *)
(* (known or repaired) findings are separate actions that raise a flag (f1, f9).            *)
EXTENDS Integers, Sequences, FiniteSets, Json, IOUtils, TLC, TLCExt

VARIABLES tid, l, pts, keys, pend, flags, remaining, chosen
vars == <<tid, l, pts, keys, pend, flags, remaining, chosen>>

Traces == JsonDeserialize(IOEnv.TRACE_FILE)
T == Traces[tid]
Ev == T.ev
Threads == {"R", "W"}

Points(m) == {p \in pts : p[1] = m}            \* pts is a set of <<metric, ts, id>>
TsId(m) == {<<p[2], p[3]>> : p \in Points(m)}
Count(m) == Cardinality(Points(m))
Size == Cardinality(pts)
Has(m, ts) == \E p \in pts : p[1] = m /\ p[2] = ts
Oldest(m) == CHOOSE t \in {p[2] : p \in Points(m)} : \A p \in Points(m) : t <= p[2]
MaxCount == IF keys = {} THEN 0 ELSE
            CHOOSE c \in {Count(m) : m \in keys} : \A m \in keys : Count(m) <= c
Idle == [op |-> "none", m |-> 0, ts |-> 0, id |-> 0, st |-> "idle", rm |-> 0, rb |-> {}, rsig |-> 0,
         win |-> FALSE]     \* win: the call overlapped the window in which the writer had chosen its metric

Init == /\ tid \in 1..Len(Traces)
        /\ l = 1 /\ pts = {} /\ keys = {} /\ flags = {}
        /\ pend = [t \in Threads |-> Idle]
        /\ remaining = {} /\ chosen = 0

IsEv(k) == l <= Len(Ev) /\ Ev[l].k = k

-----------------------------------------------------------------------------
Call ==
  /\ IsEv("call")
  /\ LET e == Ev[l] IN
       /\ pend[e.t].st = "idle"
       /\ pend' = [pend EXCEPT ![e.t] = [Idle EXCEPT !.op = e.op, !.m = e.m, !.ts = e.ts,
                                                  !.id = e.id, !.st = "called",
                                                  !.win = (e.op = "store" /\ chosen # 0 /\ chosen = e.m)]]
  /\ l' = l + 1
  /\ UNCHANGED <<tid, pts, keys, flags, remaining, chosen>>

\* ---- store ----
LinStore(t) ==
  LET p == pend[t] IN
  /\ p.op = "store" /\ p.st = "called"
  /\ IF Has(p.m, p.ts)
       THEN \* update of a cached timestamp: always accepted, size unchanged
            /\ pts' = {q \in pts : ~(q[1] = p.m /\ q[2] = p.ts)} \cup {<<p.m, p.ts, p.id>>}
            /\ pend' = [pend EXCEPT ![t].st = "done", ![t].rsig = 0]
            /\ UNCHANGED <<keys, flags>>
       ELSE \* a new timestamp: accepted while it fits under the hard limit ...
            \/ /\ pts' = pts \cup {<<p.m, p.ts, p.id>>}
               /\ keys' = keys \cup {p.m}
               /\ pend' = [pend EXCEPT ![t].st = "done", ![t].rsig = 0]
               /\ flags' = IF T.bound > 0 /\ Size + 1 > T.bound THEN flags \cup {"bound"} ELSE flags
            \* ... refused for lack of space: overflow signalled, nothing changes
            \/ /\ T.bound > 0 /\ Size + 1 > T.bound
               /\ pend' = [pend EXCEPT ![t].st = "done", ![t].rsig = 1]
               /\ UNCHANGED <<pts, keys, flags>>
            \* ... deviation (fixed finding F1): the refused store leaves an empty per-metric entry
            \/ /\ T.bound > 0 /\ Size + 1 > T.bound
               /\ p.m \notin keys
               /\ keys' = keys \cup {p.m}
               /\ flags' = flags \cup {"f1"}
               /\ pend' = [pend EXCEPT ![t].st = "done", ![t].rsig = 1]
               /\ UNCHANGED pts
  /\ UNCHANGED <<tid, l, remaining, chosen>>

RetStore ==
  /\ IsEv("ret") /\ Ev[l].op = "store"
  /\ LET e == Ev[l]  p == pend[e.t] IN
       /\ p.op = "store"
       /\ IF e.exc = 0
            THEN /\ p.st = "done" /\ e.sig = p.rsig
                 /\ UNCHANGED flags
            ELSE \* the call raised: the effect may or may not have happened
                 /\ flags' = flags \cup
                      {IF T.strategy = "bucketmax" /\ p.win THEN "f9" ELSE "storeraised"}
       /\ pend' = [pend EXCEPT ![e.t] = Idle]
  /\ l' = l + 1
  /\ UNCHANGED <<tid, pts, keys, remaining, chosen>>

\* ---- drain ----
LinDrainNone(t) ==
  /\ pend[t].op = "drain" /\ pend[t].st = "called"
  /\ pend' = [pend EXCEPT ![t].st = "done", ![t].rm = 0, ![t].rb = {}]
  /\ UNCHANGED <<tid, l, pts, keys, flags, remaining, chosen>>

LinDrain(t, m) ==
  /\ pend[t].op = "drain" /\ pend[t].st = "called"
  /\ m \in keys
  /\ pend' = [pend EXCEPT ![t].st = "done", ![t].rm = m, ![t].rb = TsId(m)]
  /\ pts' = pts \ Points(m)
  /\ keys' = keys \ {m}
  /\ flags' = IF Points(m) = {} /\ pts # {} THEN flags \cup {"emptybatch"} ELSE flags
  /\ UNCHANGED <<tid, l, remaining, chosen>>

Increasing(b) == \A i \in 1..(Len(b) - 1) : b[i][1] < b[i + 1][1]

RetDrain ==
  /\ IsEv("ret") /\ Ev[l].op = "drain"
  /\ LET e == Ev[l]  p == pend[e.t] IN
       /\ p.op = "drain"
       /\ IF e.exc = 0
            THEN /\ p.st = "done" /\ e.m = p.rm
                 /\ {<<x[1], x[2]>> : x \in {e.batch[i] : i \in 1..Len(e.batch)}} = p.rb
                 /\ Len(e.batch) = Cardinality(p.rb)
                 /\ flags' = IF Increasing(e.batch) THEN flags ELSE flags \cup {"unsorted"}
            ELSE flags' = flags \cup {"drainraised"}
       /\ pend' = [pend EXCEPT ![e.t] = Idle]
  /\ chosen' = 0
  /\ l' = l + 1
  /\ UNCHANGED <<tid, pts, keys, remaining>>

\* ---- cache query ----
LinQuery(t) ==
  /\ pend[t].op = "query" /\ pend[t].st = "called"
  /\ pend' = [pend EXCEPT ![t].st = "done", ![t].rb = TsId(pend[t].m)]
  /\ UNCHANGED <<tid, l, pts, keys, flags, remaining, chosen>>

RetQuery ==
  /\ IsEv("ret") /\ Ev[l].op = "query"
  /\ LET e == Ev[l]  p == pend[e.t] IN
       /\ p.op = "query" /\ p.st = "done"
       /\ {<<x[1], x[2]>> : x \in {e.batch[i] : i \in 1..Len(e.batch)}} = p.rb
       /\ Len(e.batch) = Cardinality(p.rb)
       /\ pend' = [pend EXCEPT ![e.t] = Idle]
  /\ l' = l + 1
  /\ UNCHANGED <<tid, pts, keys, flags, remaining, chosen>>

\* ---- the strategy chose a metric (C17) ----
PassStrategies == {"sorted", "timesorted", "naive"}
\* lag: MIN_TIMESTAMP_LAG in force when the strategy looked (e.lag; the shutdown hook sets it to 0 while the daemon runs)
EligibleL(now, lag) == IF T.strategy = "timesorted"
                         THEN {m \in keys : Points(m) # {} /\ (lag = 0 \/ now - Oldest(m) > lag)}
                         ELSE keys

Chose ==
  /\ IsEv("chose")
  /\ LET e == Ev[l]
         rem == IF remaining = {} THEN EligibleL(e.now, e.lag) ELSE remaining
         f1 == IF T.strategy \in {"max", "bucketmax"} /\ e.m # 0 /\ "f9" \notin flags
                  /\ (e.m \notin keys \/ Count(e.m) # MaxCount)
               THEN {"maxfirst"} ELSE {}
         f2 == IF T.strategy \in PassStrategies /\ e.m # 0 /\ e.m \notin rem
               THEN {"fairpass"} ELSE {}
         f3 == IF T.strategy = "timesorted" /\ e.lag > 0 /\ e.m # 0 /\ e.m \in keys /\ Points(e.m) # {}
                  /\ ~(e.now - Oldest(e.m) > e.lag)
               THEN {"lag"} ELSE {}
         f4 == IF e.m # 0 /\ e.m \notin keys THEN {"chosestale"} ELSE {}
         \* nothing chosen although a metric's oldest datapoint is older than the lag at the time the strategy looked
         f5 == IF T.strategy = "timesorted" /\ T.lag > 0 /\ e.m = 0 /\ EligibleL(e.now, e.lag) # {} THEN {"lagstarved"} ELSE {}
     IN /\ flags' = flags \cup f1 \cup f2 \cup f3 \cup f4 \cup f5
        /\ remaining' = IF T.strategy \in PassStrategies THEN rem \ {e.m} ELSE remaining
        /\ chosen' = e.m
        /\ pend' = [t \in Threads |-> IF pend[t].op = "store" /\ e.m # 0 /\ pend[t].m = e.m
                                         THEN [pend[t] EXCEPT !.win = TRUE] ELSE pend[t]]
  /\ l' = l + 1
  /\ UNCHANGED <<tid, pts, keys>>

\* ---- observations at lock-free scheduling points ----
Obs ==
  /\ IsEv("obs")
  /\ LET e == Ev[l] IN
       /\ e.held = Size
       /\ e.nkeys = Cardinality(keys)
       /\ flags' = flags
            \cup (IF e.size # e.held THEN {"sizeexact"} ELSE {})
            \cup (IF T.bound > 0 /\ e.held > T.bound THEN {"bound"} ELSE {})
  /\ l' = l + 1
  /\ UNCHANGED <<tid, pts, keys, pend, remaining, chosen>>

End ==
  /\ IsEv("end")
  /\ flags' = IF pts = {} THEN flags ELSE flags \cup {"notdrained"}
  /\ l' = l + 1
  /\ UNCHANGED <<tid, pts, keys, pend, remaining, chosen>>

Next == \/ Call \/ RetStore \/ RetDrain \/ RetQuery \/ Chose \/ Obs \/ End
        \/ \E t \in Threads : \/ LinStore(t) \/ LinDrainNone(t) \/ LinQuery(t)
                              \/ \E m \in keys : LinDrain(t, m)

Spec == Init /\ [][Next]_vars

Report == IF l = Len(Ev) + 1 THEN PrintT(<<"DONE", tid, flags>>) ELSE TRUE
\* second pass over rejected traces: how far did any behaviour get
Progress == PrintT(<<"AT", tid, l>>)
=============================================================================
