-------------------------------- MODULE Ring --------------------------------
(* carbon.hashing.ConsistentHashRing + carbon.routers.ConsistentHashingRouter /     *)
(* FastHashRing, with the hash function abstracted to a table h[node][replica] that  *)
(* TLC chooses in Init (every table, including colliding ones).                      *)
(* The ring is the sorted list of <<position, node>> entries the code keeps:         *)
(* add_node bumps a colliding position by +1 until it is free and insorts the entry; *)
(* remove_node filters; get_nodes walks clockwise from bisect_left(<<p, ()>>).        *)
EXTENDS Integers, Sequences, FiniteSets

CONSTANTS NNodes,       \* nodes are 1..NNodes
          ServerOf,     \* sequence: server of each node (several instances per server)
          Replicas,     \* ring entries per node (100 in carbon)
          RingSize,     \* hash values are 0..RingSize-1
          RF,           \* REPLICATION_FACTOR
          Diverse,      \* DIVERSE_REPLICAS
          MaxOps,
          SingleNodeReturns   \* TRUE: get_nodes returns after yielding the only node (repaired code)

VARIABLES h, ring, live, nops, hist
vars == <<h, ring, live, nops, hist>>

Node == 1..NNodes
Min2(a, b) == IF a <= b THEN a ELSE b
Positions(r) == {r[i][1] : i \in 1..Len(r)}

RECURSIVE Bump(_, _)
Bump(r, pos) == IF pos \in Positions(r) THEN Bump(r, pos + 1) ELSE pos

\* bisect.insort of an entry whose position is not in the ring
Insort(r, e) ==
  LET k == Cardinality({i \in 1..Len(r) : r[i][1] < e[1]})
  IN SubSeq(r, 1, k) \o <<e>> \o SubSeq(r, k + 1, Len(r))

RECURSIVE AddReplicas(_, _, _, _)
AddReplicas(r, n, hn, i) ==
  IF i > Len(hn) THEN r
  ELSE AddReplicas(Insort(r, <<Bump(r, hn[i]), n>>), n, hn, i + 1)

AddNodeF(r, n, tbl) == AddReplicas(r, n, tbl[n], 1)
RemoveNodeF(r, n) == SelectSeq(r, LAMBDA e : e[2] # n)

\* index (1-based) of the first entry with position >= p, wrapping around
StartIdx(r, p) == (Cardinality({i \in 1..Len(r) : r[i][1] < p}) % Len(r)) + 1

RECURSIVE Walk(_, _, _, _, _, _)
Walk(r, idx, lastIdx, seen, acc, total) ==
  IF Cardinality(seen) >= total \/ idx = lastIdx THEN acc
  ELSE LET n == r[idx][2]
           nxt == (idx % Len(r)) + 1
       IN IF n \in seen THEN Walk(r, nxt, lastIdx, seen, acc, total)
          ELSE Walk(r, nxt, lastIdx, seen \cup {n}, Append(acc, n), total)

\* ConsistentHashRing.get_nodes(key) for a key hashing to p, as a sequence
GetNodes(r, nodes, p) ==
  IF r = <<>> THEN <<>>
  ELSE LET start == StartIdx(r, p)
           lastIdx == ((start - 2 + Len(r)) % Len(r)) + 1
           only == IF Cardinality(nodes) = 1 THEN <<CHOOSE n \in nodes : TRUE>> ELSE <<>>
       IN IF only # <<>> /\ SingleNodeReturns THEN only
          ELSE only \o Walk(r, start, lastIdx, {}, <<>>, Cardinality(nodes))

\* ConsistentHashingRouter.getDestinations (parameterised so that Ring_Trace can use per-trace settings)
RECURSIVE DiversePick(_, _, _, _, _)
DiversePick(ns, used, acc, rf, srv) ==
  IF ns = <<>> \/ Cardinality(used) >= rf THEN acc
  ELSE LET n == Head(ns) IN
       IF srv[n] \in used THEN DiversePick(Tail(ns), used, acc, rf, srv)
       ELSE DiversePick(Tail(ns), used \cup {srv[n]}, Append(acc, n), rf, srv)

DestsP(ns, rf, diverse, srv) == IF diverse THEN DiversePick(ns, {}, <<>>, rf, srv)
                                ELSE SubSeq(ns, 1, Min2(rf, Len(ns)))
DestsOf(ns) == DestsP(ns, RF, Diverse, ServerOf)
Dests(r, nodes, p) == DestsOf(GetNodes(r, nodes, p))

\* FastHashRing.get_nodes: the hash-sorted node list rotated from hash(key) % n
FastNodes(sorted, hk) == IF sorted = <<>> THEN <<>>
                         ELSE [j \in 1..Len(sorted) |-> sorted[((((hk % Len(sorted)) + j) - 1) % Len(sorted)) + 1]]

-----------------------------------------------------------------------------
Init == /\ h \in [Node -> [1..Replicas -> 0..(RingSize - 1)]]
        /\ ring = <<>> /\ live = {} /\ nops = 0 /\ hist = <<>>

Add(n) == /\ n \notin live /\ nops < MaxOps
          /\ ring' = AddNodeF(ring, n, h) /\ live' = live \cup {n}
          /\ nops' = nops + 1 /\ hist' = Append(hist, <<"add", n>>) /\ UNCHANGED h

Remove(n) == /\ n \in live /\ nops < MaxOps
             /\ ring' = RemoveNodeF(ring, n) /\ live' = live \ {n}
             /\ nops' = nops + 1 /\ hist' = Append(hist, <<"rm", n>>) /\ UNCHANGED h

Next == \E n \in Node : Add(n) \/ Remove(n)
Spec == Init /\ [][Next]_vars

-----------------------------------------------------------------------------
(* C05 *)
AllPos == 0..(RingSize + NNodes * Replicas)
NoDup(s) == \A i, j \in 1..Len(s) : i # j => s[i] # s[j]
Servers(S) == {ServerOf[n] : n \in S}
Eligible == IF Diverse THEN Cardinality(Servers(live)) ELSE Cardinality(live)
WellFormedAt(r, nodes, p) ==
  LET d == Dests(r, nodes, p) IN
  /\ NoDup(d)
  /\ {d[i] : i \in 1..Len(d)} \subseteq nodes
  /\ Len(d) = Min2(RF, IF Diverse THEN Cardinality(Servers(nodes)) ELSE Cardinality(nodes))
  /\ (Diverse => \A i, j \in 1..Len(d) : i # j => ServerOf[d[i]] # ServerOf[d[j]])
WellFormed == \A p \in AllPos : WellFormedAt(ring, live, p)
\* the preference list itself names every live node exactly once
FullList == \A p \in AllPos : LET g == GetNodes(ring, live, p) IN
              NoDup(g) /\ {g[i] : i \in 1..Len(g)} = live

(* C06 *)
Without(s, n) == SelectSeq(s, LAMBDA x : x # n)
\* one membership change alters a key's preference order only by inserting / deleting that node
Stable ==
  [][\A p \in AllPos :
       /\ (\E n \in Node : live' = live \cup {n} /\ n \notin live) =>
            LET n == CHOOSE x \in Node : live' = live \cup {x} /\ x \notin live IN
            Without(GetNodes(ring', live', p), n) = GetNodes(ring, live, p)
       /\ (\E n \in Node : live' = live \ {n} /\ n \in live) =>
            LET n == CHOOSE x \in Node : live' = live \ {x} /\ x \in live IN
            GetNodes(ring', live', p) = Without(GetNodes(ring, live, p), n)]_vars

RECURSIVE Fresh(_, _)
Fresh(order, tbl) == IF order = <<>> THEN <<>>
                     ELSE AddNodeF(Fresh(SubSeq(order, 1, Len(order) - 1), tbl), order[Len(order)], tbl)
CanonicalOrder == SelectSeq([i \in 1..NNodes |-> i], LAMBDA n : n \in live)
HistoryFree == \A p \in AllPos :
   GetNodes(ring, live, p) = GetNodes(Fresh(CanonicalOrder, h), live, p)
\* an entry that does not sit at its hashed position
Bumped(r) == \E i \in 1..Len(r) : \A k \in 1..Replicas : h[r[i][2]][k] # r[i][1]
HistoryFreeModuloCollisions ==
  (~Bumped(ring) /\ ~Bumped(Fresh(CanonicalOrder, h))) => HistoryFree

TypeOK == live \subseteq Node /\ Len(ring) = Cardinality(live) * Replicas
=============================================================================
