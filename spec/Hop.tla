--------------------------------- MODULE Hop ---------------------------------
(* One relay hop (C15): the client protocol of carbon.client takes batches of at most  *)
(* MaxPerMsg datapoints from its queue (takeSomeFromQueue) and writes them as frames    *)
(* - pickle: one Int32-prefixed frame per batch; line: one line per datapoint - and the *)
(* next daemon's listener consumes the byte stream under an arbitrary segmentation      *)
(* (the buffer-and-consume loop of Wire.tla).  Frame lengths are arbitrary positive      *)
(* numbers of bytes.                                                                     *)
EXTENDS Integers, Sequences, FiniteSets

CONSTANTS N, MaxPerMsg, Proto, MaxLen

VARIABLES queue, sent, pos, buf, nextf, received
vars == <<queue, sent, pos, buf, nextf, received>>

Min2(a, b) == IF a <= b THEN a ELSE b
RECURSIVE Flat(_)
Flat(ss) == IF ss = <<>> THEN <<>> ELSE Head(ss) \o Flat(Tail(ss))
Total == LET S[i \in 0..Len(sent)] == IF i = 0 THEN 0 ELSE S[i - 1] + sent[i].len IN S[Len(sent)]

Init == /\ queue = [i \in 1..N |-> i] /\ sent = <<>>
        /\ pos = 0 /\ buf = 0 /\ nextf = 1 /\ received = <<>>

\* sendQueued(): one batch; its frames get arbitrary lengths
Send ==
  /\ queue # <<>>
  /\ LET k == Min2(MaxPerMsg, Len(queue))
         batch == SubSeq(queue, 1, k) IN
     /\ queue' = SubSeq(queue, k + 1, Len(queue))
     /\ IF Proto = "pickle"
          THEN \E n \in 1..MaxLen : sent' = Append(sent, [len |-> n, ids |-> batch])
          ELSE \E n \in 1..MaxLen : sent' = sent \o [j \in 1..k |-> [len |-> n, ids |-> <<batch[j]>>]]
  /\ UNCHANGED <<pos, buf, nextf, received>>

RECURSIVE Consume(_, _, _)
Consume(b, nf, rc) ==
  IF nf > Len(sent) \/ b < sent[nf].len THEN <<b, nf, rc>>
  ELSE Consume(b - sent[nf].len, nf + 1, rc \o sent[nf].ids)

Segment(k) ==
  /\ k >= 1 /\ pos + k <= Total
  /\ LET r == Consume(buf + k, nextf, received) IN
       buf' = r[1] /\ nextf' = r[2] /\ received' = r[3]
  /\ pos' = pos + k
  /\ UNCHANGED <<queue, sent>>

Next == Send \/ \E k \in 1..(N * MaxLen) : Segment(k)
Spec == Init /\ [][Next]_vars

-----------------------------------------------------------------------------
IsPrefix(a, b) == Len(a) <= Len(b) /\ SubSeq(b, 1, Len(a)) = a
\* never merged, reordered or dropped: what arrived is a prefix of what was queued, and everything
\* arrives once everything was sent and read
InOrderExactlyOnce == IsPrefix(received, [i \in 1..N |-> i])
Complete == (queue = <<>> /\ pos = Total) => received = [i \in 1..N |-> i]
BatchSize == \A i \in 1..Len(sent) : Len(sent[i].ids) >= 1 /\ Len(sent[i].ids) <= MaxPerMsg
Conserved == Flat([i \in 1..Len(sent) |-> sent[i].ids]) \o queue = [i \in 1..N |-> i]
=============================================================================
