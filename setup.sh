#!/bin/sh
# setup_cmd: offline; checks that the tools are present and that every specification parses.
cd "$(dirname "$0")" || exit 2
set -e
command -v java >/dev/null
test -f /opt/veriftools/tla/tla2tools.jar
/venv/bin/python -c 'import twisted, hypothesis' 
mkdir -p evidence replays
tmp=$(mktemp -d)
trap 'rm -rf "$tmp"' EXIT
cp spec/*.tla "$tmp"/
fail=0
for f in spec/*.tla; do
  m=$(basename "$f")
  if ! (cd "$tmp" && java -cp /opt/veriftools/tla/tla2tools.jar:/opt/veriftools/tla/CommunityModules-deps.jar tla2sany.SANY "$m" >"$tmp/sany.out" 2>&1); then
    echo "SANY failed on $m"; tail -20 "$tmp/sany.out"; fail=1
  fi
done
[ $fail -eq 0 ] && echo "setup ok: $(ls spec/*.tla | wc -l) modules parse"
exit $fail
