#!/bin/sh
# usage: run_tier.sh <tier> "<pids>" [seed]  -- runs checks one after another, prints time and verdict lines
cd "$(dirname "$0")/.." || exit 2
tier=$1; seed=${3:-0}
for pid in $2; do
  t0=$(date +%s)
  out=$(VERIF_SEED=$seed ./check $pid --tier $tier 2>/dev/null | grep -E '^(VIOLATION|MACHINERY|KNOWN|C[0-9]+ )' | cut -c1-220 | sort | uniq -c | head -6)
  t1=$(date +%s)
  echo "== $pid $tier seed=$seed $((t1-t0))s: $out"
done
