#!/bin/sh
# usage: seed_sweep.sh "<pids>" "<seeds>" [tier]   -- runs checks with several seeds, prints one line each
cd "$(dirname "$0")/.." || exit 2
tier=${3:-quick}
for pid in $1; do
  for sd in $2; do
    out=$(VERIF_SEED=$sd ./check $pid --tier $tier 2>/dev/null | grep -E '^(VIOLATION|MACHINERY|DRIFT|C[0-9]+ )' | cut -c1-200 | sort | uniq -c | head -5)
    echo "== $pid seed=$sd: $out"
  done
done
