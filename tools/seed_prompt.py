#!/usr/bin/env python3
"""Prints the prompt given to a mutant-writing sub-agent for one property (property text only)."""
import json, sys
pid = sys.argv[1]
wt = sys.argv[2]
n = sys.argv[3] if len(sys.argv) > 3 else '2'
start = int(sys.argv[4]) if len(sys.argv) > 4 else 1
flavour = sys.argv[5] if len(sys.argv) > 5 else 'a'
last = start + int(n) - 1
for l in open('/verif/properties.jsonl'):
  d = json.loads(l)
  if d['id'] == pid:
    break
FLAVOUR = {
  'a': 'Make the changes as different from one another as you can: different functions, different mechanisms (e.g. one at an input/boundary value, one in ordering/concurrency or a multi-step history, one on a rarely used configuration or error path).',
  'b': 'Make the changes as different from one another as you can, and aim each at a different one of these areas: (1) a type or representation corner (bytes vs str, int vs float vs bool, None, negative or zero or huge numbers, empty containers, repeated/duplicate elements, unicode); (2) an interaction between two features or settings that are each fine alone (a non-default setting combined with another, a code path shared by several daemon types, a helper used from two call sites with different expectations); (3) a lifecycle or state-reset path (reconnect, re-read of a configuration or rule file at run time, start-up order, shutdown, clear()/reset() leaving stale state, a cache or memo that outlives what it describes, a one-shot that is not re-armed). Prefer changes in helper functions and less central modules over the most obvious line of the main function.',
  'c': 'Make the changes as different from one another as you can, and style each as a plausible, innocent-looking commit of a different kind: (1) a performance-motivated refactoring (a cache or memo, an early exit, batching, avoiding a copy or a repeated lookup, moving work out of a loop or out of a locked region); (2) a change to error handling, logging or clean-up (an exception class narrowed or widened, a try/finally or with-block restructured, a log line that formats its arguments, a handler or timer that is removed or not re-registered on some path); (3) a subtle logic slip (off-by-one in a slice, range or comparison, operands or branches swapped, a condition simplified that is not equivalent for an empty / single-element / already-present case, integer vs true division, default argument changed). Avoid the single most obvious line of the main function; prefer places a reviewer would skim.',
  'd': 'Make the changes as different from one another as you can, and put each one somewhere a reader of the property would NOT look first: (1) in a supporting module rather than the main one - e.g. carbon/events.py, carbon/state.py, carbon/conf.py (defaults, type conversion, values derived from other settings at start-up), carbon/util.py helpers, carbon/instrumentation.py, carbon/log.py, carbon/service.py (how the daemons are wired together), carbon/management.py, carbon/database.py plugin glue - such that the property still breaks when the daemon is configured or wired the way carbon really does it; (2) in how a value travels between two modules (a name, a unit - seconds vs minutes, per-second vs per-minute -, a tuple order, an int vs float, a default argument) so that each side looks right on its own; (3) in behaviour that only differs for one of the daemon types or protocols that share the code (carbon-cache vs carbon-relay vs carbon-aggregator vs carbon-aggregator-cache; line vs UDP vs pickle; whisper vs ceres; carbon_ch vs fnv1a_ch). Keep each change small and plausible as a real commit.',
  'e': 'Make the changes as different from one another as you can, and make each one show ONLY under conditions that a quick hand-written check would be unlikely to set up: (1) a particular non-default combination of settings documented in conf/carbon.conf.example (two or three options that must be set together), or a setting at an extreme but legal value; (2) scale or time: it needs many items (hundreds of metrics or datapoints, a long queue, many destinations or connections, many rules) or a long quiet period, a clock jump, or a specific alignment of timestamps to interval boundaries; (3) the shape of names or numbers: very long names, names with leading/trailing/double dots, unusual but legal characters, unicode, numbers near float or integer limits, negative or zero values, timestamps far in the past or future. Keep each change small and plausible as a real commit.',
  'f': 'Make the two changes as different from one another as you can, and aim at LIFECYCLE moments and at HISTORY: the defect must only show (1) around a lifecycle event - daemon start-up before the first connection or first flush, a configuration or rules file being reloaded while traffic flows, a SIGHUP, an orderly shutdown, a reconnect after a long outage, the first use of a lazily created object, the wrap-around or reset of a counter or interval - or (2) only after a particular HISTORY of earlier operations that leaves hidden state behind (a memo, a cached lookup, a leftover timer, a flag that was set and never cleared, an object reused after being closed), so that the same call gives a different result depending on what happened before. A check that starts from a freshly constructed object and performs a single operation must not be able to see it. Keep each change small and plausible as a real commit.',
  'g': 'Aim at a FAULT or a CO-OPERATION: the defect must only show (1) when something fails or is interrupted at a particular point - an exception from the database backend, the network transport, a file operation or a callback, raised exactly between two steps that belong together, so that the recovery / clean-up path runs (that path is where the slip is), or (2) through two code sites that each look fine alone but disagree about a contract (who resets a flag, who owns a lock, whether a list is copied or shared, whether a count is before or after an operation, inclusive vs exclusive bound), so that a reviewer of either hunk would approve it. Keep the change small and plausible as a real commit. You have about 15 minutes: prefer finishing one solid, verified change over polishing.',
}
print(f"""You are helping to evaluate a verification effort for the open-source project graphite-project/carbon (Graphite's Carbon daemons: Twisted services that receive metrics, relay them with consistent hashing, aggregate, cache in memory and write to Whisper).

You have your own scratch git worktree of the repository at {wt} (Python sources under {wt}/lib/carbon). Work ONLY inside {wt}. Do not read or touch /repo or /verif.

Here is a semantic property the code is supposed to satisfy:

  Title: {d['title']}
  Statement: {d['statement']}
  Quantified over: {d['quantifier']['text']}

Your task: produce {n} DIFFERENT, independent, realistic source changes ("seeded defects") to carbon, each of which BREAKS this property, while
  (a) the code still imports/compiles, and
  (b) the existing test suite still passes exactly as before. Run it with:
        cd {wt} && PYTHONPATH={wt}/lib /venv/bin/python -m pytest -q -p no:cacheprovider --timeout=900 --continue-on-collection-errors
      On the unchanged tree this reports '179 passed' plus 2 failed / 5 collection errors that are pre-existing (missing optional libraries); your change must leave those numbers identical.
  (c) the breakage needs something SPECIFIC to manifest - a particular thread interleaving, a crash or fault at a particular point, a multi-step sequence of operations, an unusual input or configuration value, or two cooperating code sites that each look fine alone. Do NOT make changes that ordinary use would expose at once (e.g. breaking every call). Think of plausible maintenance mistakes: a refactoring that narrows a lock, an off-by-one at a boundary, a wrong comparison direction that only matters in a corner, a swallowed error, a missing re-arm of a one-shot, state not reset on a rare path.

{FLAVOUR[flavour]}

For each change i ({start}..{last}) create a directory {wt}/_seed/{pid}_i/ containing:
  - patch.diff : the change as a unified diff produced by `git -C {wt} diff` (relative to HEAD, applying cleanly with `git apply`), touching only files under lib/carbon (not tests)
  - demo.py (or demo_test.py): a small self-contained demonstration program, runnable as `PYTHONPATH={wt}/lib /venv/bin/python demo.py`, that exits 0 / passes WITHOUT the change and exits non-zero / fails WITH the change. It may use threads, mocks, fake clocks, twisted test helpers (twisted.internet.task.Clock, twisted.internet.testing.StringTransport), etc. Notes on the environment: Python 3.12; whisper, ceres, mmh3, pyhash, protobuf and OpenSSL are NOT installed; `import carbon.service` fails here (broken txamqp) unless you put `sys.modules['carbon.amqp_listener'] = None` first; carbon.writer / carbon.storage read settings.CONF_DIR at import time.
  - meta.json : {{"property": "{pid}", "summary": "...what was changed...", "needs": "...what specific condition makes it manifest...", "why_tests_pass": "..."}}
After creating each patch.diff, REVERT the worktree to clean (`git -C {wt} checkout -- .`) before starting the next change, and at the very end leave the worktree clean except for the untracked _seed directory. Verify for each change yourself: apply patch -> test suite numbers identical -> demo fails; revert -> demo passes.

No network access exists; do not try to install anything. When done, reply with a short list of the changes you produced (one line each) and the paths.""")
