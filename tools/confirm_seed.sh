#!/bin/sh
# usage: confirm_seed.sh <worktree> <seed dir>   -- confirms: applies cleanly, suite unchanged, demo fails with / passes without
wt="$1"; sd="$2"
cd "$wt" || exit 2
git checkout -q -- . 
demo=$(ls "$sd"/demo*.py | head -1)
PYTHONPATH=$wt/lib /venv/bin/python "$demo" >/dev/null 2>&1; clean=$?
git apply "$sd/patch.diff" || { echo "APPLY-FAIL"; exit 2; }
suite=$(PYTHONPATH=$wt/lib /venv/bin/python -m pytest -q -p no:cacheprovider --timeout=900 --continue-on-collection-errors 2>&1 | tail -1)
PYTHONPATH=$wt/lib /venv/bin/python "$demo" >/dev/null 2>&1; mut=$?
git checkout -q -- .
echo "$(basename $sd): demo clean-exit=$clean mutated-exit=$mut suite: $suite"
