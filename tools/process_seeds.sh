#!/bin/sh
# usage: process_seeds.sh <Cnn> [tier]  -- for every seed under /tmp/wt-Cnn/_seed: confirm it, keep it in
# /verif/seeded/, then run the property's check against the worktree with the patch applied (VERIF_REPO).
pid=$1; tier=${2:-quick}; wt=${3:-/tmp/wt}-$pid
for sd in $wt/_seed/${pid}_*; do
  [ -d "$sd" ] || continue
  name=$(basename $sd)
  res=$(/verif/tools/confirm_seed.sh $wt $sd 2>&1 | tail -1)
  echo "CONFIRM $res"
  case "$res" in *"clean-exit=0 mutated-exit=0"*|*APPLY-FAIL*) echo "  -> not confirmed, skipped"; continue;; esac
  case "$res" in *"179 passed"*) ;; *) echo "  -> suite changed, skipped"; continue;; esac
  mkdir -p /verif/seeded/$name && cp $sd/patch.diff $sd/meta.json /verif/seeded/$name/ && cp $sd/demo*.py /verif/seeded/$name/
  (cd $wt && git checkout -q -- . && git apply $sd/patch.diff) || { echo "apply failed"; continue; }
  out=$(cd /verif && VERIF_REPO=$wt ./check $pid --tier $tier 2>/dev/null | grep -E '^(VIOLATION|KNOWN|MACHINERY|C[0-9]+ )' | sed 's/replay=[^ ]*//' | cut -c1-200 | sort | uniq -c | sort -rn | head -4)
  (cd $wt && git checkout -q -- .)
  echo "RESULT $name: $out"
done
