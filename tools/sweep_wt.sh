#!/bin/sh
# usage: sweep_wt.sh <tier> <worker-id> <seed ids...>  -- runs each kept seeded defect in a private worktree (never /repo):
# applies seeded/<id>/patch.diff there, runs the property's check with VERIF_REPO pointing at it, records the verdict
# in /tmp/sweep-<id>.txt.  The worktree is removed at the end.
tier=$1; wid=$2; shift 2
wt=/tmp/wt-sweep-$wid
git -C /repo worktree remove --force $wt 2>/dev/null
git -C /repo worktree add -q --detach $wt HEAD || exit 2
for id in "$@"; do
  pid=${id%%_*}
  base=$(python3 -c "import json,sys;print(json.load(open('/verif/seeded/$id/meta.json')).get('base',''))" 2>/dev/null)
  if [ -n "$base" ]; then (cd $wt && git checkout -q -- . && git checkout -q --detach $base); fi
  (cd $wt && git checkout -q -- . && git apply /verif/seeded/$id/patch.diff) || { echo "$id APPLY-FAIL" > /tmp/sweep-$id.txt; (cd $wt && git checkout -q --detach $(git -C /repo rev-parse HEAD)); continue; }
  (cd /verif && VERIF_REPO=$wt ./check $pid --tier $tier 2>/dev/null | grep -E '^(VIOLATION|KNOWN|MACHINERY|C[0-9]+ )' | sed 's/replay=[^ ]*//' | cut -c1-200 | sort | uniq -c | sort -rn | head -5) > /tmp/sweep-$id.txt
  (cd $wt && git checkout -q -- .)
  if [ -n "$base" ]; then (cd $wt && git checkout -q --detach $(git -C /repo rev-parse HEAD)); fi
done
git -C /repo worktree remove --force $wt
