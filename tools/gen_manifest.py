#!/usr/bin/env python3
"""Regenerates /verif/MANIFEST.json from the table below (single place to edit)."""
import json
import os

HERE = os.path.dirname(os.path.dirname(os.path.abspath(__file__)))

TECH = 'explicit TLA+ spec checked by TLC + conformance: TLC behaviours replayed into the real code and recorded executions judged by the trace spec'

# pid -> (built?, spec modules, level text, level note, technique)
P = {
  'C20': (True, 'TokenBucket.tla, TokenBucket_Trace.tla, Boot.tla',
          'TLC exhausts TokenBucket.tla (lazy refill, blocking path, limit change) for small capacities/rates and proves the window, wait and cap invariants there; TLC -simulate behaviours are replayed on the real TokenBucket and random long histories of the real class are judged event by event (every pair of grants) by TokenBucket_Trace.',
          'virtual clock whose sleep() rounds up to the tick; float token counts compared with exact rationals (decisions may differ only at exact equality); writer-level bucket use covered by C03/C04 harness',
          TECH),
}

P.update({
  'C02': (True, 'Cache.tla, CacheLin.tla, Boot.tla',
          'TLC exhausts Cache.tla (store atomic under the lock; drain = unlocked emptiness test, locked choose, locked pop; six strategies; dict insertion order) and proves conservation, last-write-wins, no duplicate timestamp in a batch and exact size in every state; simulated behaviours are replayed on the real _MetricCache with the projection compared after each action; line-level schedule exploration (pre-emption bounded exhaustive, then random) of real store/drain/cache-query workloads is recorded and every execution must have a linearization in CacheLin.tla explaining every batch, query result and lock-free size observation.',
          'source-line granularity (dict/deque operations are atomic under the GIL); cooperative replacement of the cache lock installed on the instance; cache queries issued from the storing thread as in carbon',
          TECH),
  'C10': (True, 'Cache.tla, CacheLin.tla, Boot.tla, Instr.tla',
          'As C02 with MAX_CACHE_SIZE 1..6 and flow control on/off: TLC proves Bound, RefusalSignalled and the action property RefusalNoEffect on Cache.tla; recorded executions are judged by CacheLin.tla where a refusal must coincide with the overflow signal and leave contents and metric count unchanged, and every lock-free observation of the size must respect floor(hard limit).',
          'hard limit derived like conf.py (MAX or 1.05*MAX); overflow signal observed by a handler on events.cacheOverflow; line granularity',
          TECH),
  'C17': (True, 'Cache.tla, CacheLin.tla, Boot.tla',
          'TLC checks per strategy NeverFails (modulo listed finding F9), NoEmptyBatch, FairPass, MaxFirst, LagRespected and, under fairness without state constraint, the liveness property DrainsEverything; behaviours are replayed on the real strategies (generator snapshots / buckets compared); line-level exploration records choose_item() results under the cache lock so CacheLin.tla evaluates pass fairness, max-first and lag at the choice, and any exception out of store()/drain_metric() is an event.',
          'random strategy treated as any cached metric; virtual clock for MIN_TIMESTAMP_LAG; line granularity',
          TECH),
})

P.update({
  'C03': (True, 'Writer.tla, WriterLin.tla, Writer_Trace.tla, TagQueue.tla, Instr.tla',
          'TLC exhausts Writer.tla (program-counter machine of writeCachedDataPoints/writeForever with a storing thread, create limiting, lag, and up to 2 failing exists/create/write calls) and proves no double write, no rewrite after an error, write only for existing files, nothing silently discarded and the counters; the real writeForever() runs under the line-level deterministic scheduler against real stores, an in-memory database plugin executing a fault script (every single-fault placement, then random multi-fault scripts) with the real counters and the twisted error log, and WriterLin.tla judges every recorded trace clause by clause; executions at lock/backend-call granularity are in addition validated against Writer.tla itself (Writer_Trace.tla: logged events matched to actions, silent writer steps inserted by TLC, corrupted traces rejected).',
          'in-memory TimeSeriesDatabase plugin stands for Whisper/Ceres (not installed); log.err() counts as reported; linearization-point events logged from the cooperative cache lock; line granularity',
          TECH),
  'C04': (True, 'Writer.tla, WriterLin.tla, Boot.tla',
          'TLC proves FlushOnExit on Writer.tla with the stop (before-trigger, then running:=False) enabled in every state; on the code a third thread delivers the stop through the real shutdownModifyUpdateSpeed() and every placement reachable with <= k pre-emptions at line granularity (plus random placements) is executed for all strategies, MIN_TIMESTAMP_LAG and rate limits with/without MAX_UPDATES_PER_SECOND_ON_SHUTDOWN; WriterLin.tla flags datapoints accepted before the stop that are still cached at thread exit.',
          'reactor double whose running flag the stop thread clears (Twisted clears it in crash() during shutdown and then joins the pool); virtual time; a failing write() during the flush; other backend faults belong to C03',
          TECH),
})

P.update({
  'C07': (True, 'Relay.tla, Relay_Trace.tla, Boot.tla, Instr.tla',
          'TLC exhausts Relay.tla - one action per reactor callback of carbon.client (arrival, self-metric, connection made/lost/failed, transport pause/resume, send timer, retry timer, stop) with the synchronous chains inside a callback - and proves FifoOnce, NormalOrder, DropsCounted, Bounded, BatchSize, StopAfterFlush and NoLoss for 1-2 destinations, flow control and dynamic router on/off; TLC-simulated event sequences and seeded random histories are executed on the real CarbonClientManager/factories/protocols (fake connector, per-factory clocks, StringTransports, real router, real pipeline wiring); every event logs the full projection including the independently decoded bytes of every connection and Relay_Trace.tla applies the callback to the previously observed state and names what differs.',
          'bytes handed to transport.write() are the observation; no datapoints injected after the orderly stop began; pickle and line client protocols (protobuf not importable)',
          TECH),
  'C09': (True, 'FlowCache.tla, FlowCache_Trace.tla, Relay.tla, Relay_Trace.tla, Listen.tla, Boot.tla',
          'Cache side: TLC checks NoStuck on FlowCache.tla (cacheFull chain under the lock on the reactor thread, unlocked space check and cacheSpaceAvailable chain on the writer thread, handler lists iterated by index); the real cache + events + service.py wiring + real receivers run as two threads under pre-emption-bounded, random and landmark-directed line-level schedules to quiescence and FlowCache_Trace.tla flags anyone left paused below the watermark (listed finding F8 by signature). Relay side: TLC checks NoStuck on Relay.tla and the C07 event histories, settled to quiescence, are judged by Relay_Trace.tla.',
          'quiescence excludes the 60 s self-metrics timer and the retries of a destination the dynamic router has removed; MAX_CACHE_SIZE=20 pre-filled so that 1.05*MAX leaves room above MAX; landmark lines are located in the source text',
          TECH),
})

P.update({
  'C05': (True, 'Ring.tla, Ring_Trace.tla, Boot.tla',
          'TLC checks WellFormed and FullList on Ring.tla over EVERY hash table of a small ring (collisions included) and every membership reachable by a few add/remove steps, for RF 1..3 and both DIVERSE_REPLICAS values; the real ConsistentHashRing / ConsistentHashingRouter / FastHashingRouter are driven with controlled tables (compute_ring_position rebound on the instance) and with real md5 / FNV-1a hashes over ALL 65537 ring positions (compressed to arcs after checking constancy); Ring_Trace.tla rebuilds the ring from independently computed reference positions, recomputes every preference list and evaluates the property clauses on the observed destination lists.',
          'mmh3_ch excluded (mmh3 not installed); hashlib.md5 trusted; reference positions are a value oracle (TLC cannot evaluate md5)',
          TECH),
  'C06': (True, 'Ring.tla, Ring_Trace.tla, Boot.tla',
          'TLC proves the action property Stable and HistoryFreeModuloCollisions over every hash table of a small ring; recorded scenarios (controlled and real hashes, histories of up to 6 add/remove operations) are judged by Ring_Trace.tla: observed ring entries must equal add/bump/insort/remove applied to the reference hash positions after every step (compatibility with the published carbon_ch / fnv1a_ch algorithm), and the final routing must equal that of a freshly built ring (history independence; listed finding F3 where positions collide).',
          'as C05; the fresh relay is taken to add the live destinations in their configured order',
          TECH),
})

P.update({
  'C08': (True, 'Aggregator.tla, Aggregator_Trace.tla, Pipeline.tla, Reload.tla, Boot.tla',
          'TLC exhausts Aggregator.tla (MetricBuffer / IntervalBuffer / BufferManager and the compute_value LoopingCall on a virtual clock; a value is the id of its datapoint) and proves that every emission covers the values received since the last emission, all values while the interval never expired, re-emission only on new data, the MAX+2 cap and the release of idle series; TLC-simulated behaviours and random streams x tick interleavings run on the real AggregationProcessor / RuleManager / BufferManager (rules file in scratch, buffers.time virtual, every LoopingCall on a task.Clock) and Aggregator_Trace.tla re-synchronises on the observed buffers and judges the observed emissions (values 4^id under sum make the aggregated ids decodable) and the forwarding; generated rules x names are judged by the pattern-language operators of the same module; Pipeline.tla specifies run_pipeline over the processors carbon.service.setupPipeline installs (closed-form delivery / naming / feeding / error accounting checked by TLC against the recursive definition) and judges recorded cases of the real pipeline (real rule files, one processor optionally made to raise, generated datapoints).  Reload.tla (the periodic re-read of the aggregation-rules and rewrite-rules files under rewrites, removal, restore with a preserved modification time and failing ticks) is model-checked and its simulated histories are replayed on the real rule managers.',
          'numeric aggregation methods are compared with exact references outside TLC (value oracle); pattern oracle restricted to whole-segment fields, <<field>>, *, pre*post and plain literals',
          TECH),
})

P.update({
  'C01': (True, 'Wire.tla, Wire_Trace.tla, Listen.tla, Boot.tla',
          'TLC exhausts Wire.tla (frames of good / bad / over-long kind, the receivers buffer-and-consume loop) over every stream of up to 3 frames and every segmentation and proves ExactlyOnceInOrder, CloseOnlyOversize and AppendOnly; concrete streams of well-formed datapoints (non-ASCII names, fractional and > 2^31 timestamps, +-inf, -0.0, subnormals, random 64-bit patterns, integers, pickle protocols 0-5, any batching) are fed to the real MetricLineReceiver / MetricPickleReceiver under every single cut position, all-1-byte segments and random multi-cuts and to MetricDatagramReceiver per datagram; a recorder on events.metricReceived is the observation and Wire_Trace.tla judges every segment.',
          'bit-exact float comparison is a value oracle; protobuf listener not importable; Twisted framing code is in the loop (observed, not trusted)',
          TECH),
  'C11': (True, 'Wire.tla, Wire_Trace.tla',
          'Same model (bad frames are skipped, only an over-long frame closes, no action lets an exception escape); streams interleaving well-formed frames with 10 kinds of malformed lines and 10 kinds of malformed pickle frames and over-long frames run on the real listeners under every single cut and random multi-cuts, and byte-level mutants of valid streams must give the same outcome under any segmentation as in one piece; Wire_Trace.tla flags escaped exceptions, unjustified closes and harmed neighbours.',
          'a real transport stops reading after loseConnection(), so no bytes are fed after a close; NaN values are well-formed here (C12)',
          TECH),
})

P.update({
  'C12': (True, 'Admission.tla, Reload.tla, Boot.tla',
          'The admission rules are a decision table in Admission.tla (blacklist hit, non-empty whitelist miss, NaN, timestamp -1 -> now, rounding down to MIN_TIMESTAMP_RESOLUTION, list-file semantics with comment / blank / invalid lines, search not match); thousands of cases - list files written to disk and loaded by the real WhiteList/BlackList objects, names that hit and narrowly miss, values incl. NaN/inf, timestamps incl. -1, fractional and negative, resolutions 0/1/10/60 - are sent through the real line, UDP and pickle listeners, and TLC evaluates the table against the recorded outcome (admitted?, timestamp, name/value unchanged, the two counters) for every case.  Reload.tla is the periodic re-read of the list file (rewrites, removal, restore with a preserved modification time, a failing getmtime()): TLC proves that after a tick the list in force is the file (Fresh, FaultKeeps), and TLC-simulated histories are replayed on a real RegexList with its own LoopingCall on a private clock, the list in force compared after every action.',
          'regular-expression matching is restricted to a literal grammar that the specification can decide (value oracle); protocols.time is a fixed virtual clock',
          'explicit TLA+ decision table evaluated by TLC on recorded executions of the real listeners (oracle evaluation)'),
})

P.update({
  'C15': (True, 'Hop.tla, Wire_Trace.tla, Boot.tla',
          'TLC checks Hop.tla - batches of at most MaxPerMsg ids leave the queue as frames (one pickle frame per batch / one line per datapoint) and the listener loop of Wire.tla consumes them under every segmentation - for InOrderExactlyOnce, Complete, BatchSize and Conserved over all batch sizes; a real CarbonPickleClientFactory / CarbonLineClientFactory transmits queues of extreme datapoints with MAX_DATAPOINTS_PER_MESSAGE 1..16, an independent decoder recovers the batch structure of the bytes, the bytes are fed under segmentations to the real listener, and Wire_Trace.tla judges order, exactly-once and batching with the per-datapoint value relation supplied by the harness.',
          'value relation (pickle bit-identical; line: |dv| <= 5e-11 or 1 ulp, floor of the timestamp) is evaluated in exact Fraction arithmetic outside TLC; protobuf not importable',
          TECH),
})

P.update({
  'C14': (True, 'Path.tla, Boot.tla',
          'Path.tla transcribes TaggedSeries.encode/decode, WhisperDatabase._getFilesystemPath (with os.path.join and normpath semantics) and CeresDatabase.encode over a symbol alphabet; TLC enumerates EVERY metric name up to the length bound (one state per name) and proves ConfinedAll, CeresOK and Injective; every such name plus random long / arbitrary-unicode names is passed to the real WhisperDatabase.getFilesystemPath and CeresDatabase.encode (both TAG_HASH_FILENAMES values), a file is created through WhisperDatabase.create in a scratch data directory, and TLC checks per case that the observed path, symbolised by character class, equals the specified one, is confined, and that the created file lies under the data directory.',
          'whisper / ceres are stubs (not installed): only carbon\'s own path code and plugin glue run; the sha256 prefix is a value oracle; Ceres on-disk layout cannot run',
          'explicit TLA+ transcription of the path function, exhaustive TLC enumeration of names, oracle evaluation of recorded executions'),
})

P.update({
  'C18': (True, 'Tags.tla',
          'Tags.tla transcribes parse_carbon / validateTagAndValue / sanitize_name_as_tag_value / format over character codes; TLC proves Idempotent over EVERY string up to the length bound over the reserved characters and Canonical over every order of the tag list of every valid series of a small universe; the real TaggedSeries.parse, CacheFeedingProcessor.process (key stored in the real cache) and RelayProcessor.process (name handed to the client manager) run on arbitrary strings over ; ! ^ = ~ { } \" \\ , and letters - judged by TLC against the transcribed parser - and on valid series rendered in all permutations of up to 4 tags in carbon and OpenMetrics syntax with and without a name tag, which must all give the canonical form.',
          'tag sets have distinct keys; the OpenMetrics regex is not transcribed: that syntax is judged through rendered series only',
          'explicit TLA+ transcription of the parser, exhaustive TLC enumeration, oracle evaluation of recorded executions'),
})

P.update({
  'C19': (True, 'Schemas.tla',
          'Schemas.tla holds the first-match rule over ordered sections (unusable sections transparent), the retention grammar (seconds-per-point and points with unit suffixes s m h d w y, a duration divided by the precision) and the defaults; TLC proves Transparent and FirstWins over every small section list x match vector; generated storage-schemas.conf / storage-aggregation.conf files (every order for small files, overlapping patterns, missing keys, every unit, multi-archive) are loaded through the writer\'s own reload functions, a probe metric is stored in the real cache, the real writeCachedDataPoints() runs against an in-memory database plugin, and TLC compares every recorded create(metric, retentions, xFilesFactor, method) with the specification.',
          'regex matching restricted to a literal grammar (value oracle); durations kept below 2^31 seconds for TLC; the backend double accepts every archive list',
          'explicit TLA+ specification of the configuration semantics, TLC enumeration of the first-match rule, oracle evaluation of recorded create() calls of the real writer'),
})

P.update({
  'C16': (True, 'Rules.tla, Reload.tla',
          'Rules.tla holds RelayRulesRouter.getDestinations as the code iterates (first match, continue chain, default rule last, filtered by the configured set), its closed form, and the aggregation-rule pattern language; TLC proves ClosedForm and OnlyConfigured over every small rule table; generated relay-rules.conf files (shuffled default section, default = false decoys, continue spellings, destination subsets) are loaded by the real RelayRulesRouter with destinations added/removed through the router API, generated aggregation-rules files by the real AggregatedConsistentHashingRouter, and TLC compares every recorded routing decision with the specification (for aggregated routing: the union of the hash destinations of the aggregate names the rule language gives).  Reload.tla (the periodic re-read of the rules file under rewrites, removal, restore with a preserved modification time and failing ticks) is model-checked and its simulated histories are replayed on a real aggregation RuleManager.',
          'relay-rule regexes restricted to a case-insensitive literal grammar (value oracle); hash destinations of a key come from the real ConsistentHashingRouter (C05/C06)',
          'explicit TLA+ specification of the routing rules, TLC enumeration of small rule tables, oracle evaluation of recorded decisions of the real routers'),
})

P.update({
  'C13': (True, 'Unpickle.tla, Boot.tla',
          'Unpickle.tla is the pickle machine restricted to global references (GLOBAL, STACK_GLOBAL, INST, OBJ, NEWOBJ, NEWOBJ_EX, REDUCE, BUILD, EXT, PERSID, memo) with SafeUnpickler.find_class as the only gate; TLC proves Safe, NothingOnPy3 and PlainResult over every opcode program up to the bound under Python 3 and Python 2 allow-list semantics; TLC-simulated abstract programs are assembled into bytes for protocols 0-5 and several concrete encodings, templates of every route are nested at depth 0-3 inside a well-formed datapoint list, the lookup routes are swept over the (module, attribute) pairs of all loaded modules, all delivered through the real MetricPickleReceiver.dataReceived and CacheManagementHandler.dataReceived; a spy around the unpickler chosen in connectionMade, canaries and an audit hook are the observation and Unpickle.tla (trace mode) judges every record.',
          'references on calling routes are canaries of a harness module only; the sweep over loaded modules uses lookup-only routes (stride 23 in quick, every pair in thorough)',
          TECH),
})

PENDING_REASON = 'check not built yet in this round (planned per DESIGN.md section 5); not claimed until its TLA+ model and conformance harness exist'


def main():
  checks = []
  na = []
  for i in range(1, 21):
    pid = 'C%02d' % i
    ent = P.get(pid)
    if ent and ent[0]:
      checks.append(dict(
        property_id=pid,
        quick_cmd='./check %s --tier quick' % pid,
        thorough_cmd='./check %s --tier thorough' % pid,
        evidence_file='/verif/evidence/%s.json' % pid,
        replay_cmd_template='./check %s --replay {path}' % pid,
        engine='tlc',
        level_claimed=dict(category='model_checking', text=ent[2], design_ref='DESIGN.md section 5, %s' % pid),
        level_note=ent[3],
        technique=ent[4],
      ))
    else:
      na.append(dict(property_id=pid, reason=(ent[2] if ent else PENDING_REASON)))
  m = dict(
    version=1,
    setup_cmd='./setup.sh',
    hooks=dict(
      guard='CARBON_VERIF',
      enable='checks export CARBON_VERIF=1 and import carbon from /repo/lib; no source hooks are needed so far (observation uses public seams: module-level time/sleep/reactor names, plugin API, transports)',
      baseline_off_cmd='cd /repo && env -u CARBON_VERIF /venv/bin/python -m pytest -ra -q -p no:cacheprovider --timeout=900 --continue-on-collection-errors',
      source_commits=[],
      add_only=True,
    ),
    engines=[dict(name='tlc', path='/verif/harness/tlc.py', serves_properties=[c['property_id'] for c in checks],
                  kind_free_text='TLC 1.8 model checker / simulator / trace validator driven from Python; specs in /verif/spec')],
    checks=checks,
    not_applicable=na,
    notes='Exit 0 held, 1 VIOLATION, 2 machinery failure. See DESIGN.md.',
  )
  with open(os.path.join(HERE, 'MANIFEST.json'), 'w') as fh:
    json.dump(m, fh, indent=1)
  print('MANIFEST: %d checks, %d not claimed' % (len(checks), len(na)))


if __name__ == '__main__':
  main()
