#!/bin/sh
# usage: try_seed.sh <patch.diff> <tier> <pid>...   -- applies a seeded defect to /repo, runs checks, reverts.
patch="$1"; tier="$2"; shift 2
cd /repo || exit 2
if [ -n "$(git status --porcelain --untracked-files=no)" ]; then echo "repo not clean"; exit 2; fi
git apply "$patch" || { echo "patch does not apply"; exit 2; }
trap 'git -C /repo checkout -- . ' EXIT
for pid in "$@"; do
  (cd /verif && ./check "$pid" --tier "$tier" 2>/dev/null | grep -E '^(VIOLATION|KNOWN|MACHINERY|C[0-9]+ )' | sed 's/replay=[^ ]*//' | cut -c1-220 | sort | uniq -c | sort -rn | head -6)
  echo "exit-of-$pid: done"
done
